"""`fit_gif` translator: `BaseART.fit_gif` — the animated twin of `BaseART.fit` — and, under the same rules, `BaseART.fit`
and the three hooks (artlib/common/BaseART.py)  ->  Lean 4 definitions in `lean/ArtGen/FitGif.lean` (namespace
`Art.Gen.FitGif`).

`fit_gif` repeats the training loop of `fit` with matplotlib drawing statements in between and starts `labels_` from
`-1` instead of `0`.  The drawing statements are removed by the explicit rules below (each one listed in `DROPPED`);
what is left is translated statement by statement with the rules of the control-flow translator `ctrans.py`, of which
this module is a further *profile* (as `wtrans.py` is): while `generate` runs, the profile tables of ctrans and its two
dispatchers `ext` / `tr_block` are swapped for wrappers that try the rules below first and otherwise call the original;
everything is restored in a `finally`.  `lean/ArtGenProofs/FitGifSpec.lean` proves

  * for EVERY receiver's hooks: the loop bodies generated from `fit_gif` are the loop bodies generated from `fit`, and
    `fit_gif` / `fit` are that loop started from the `-1`-filled / `0`-filled label vector;
  * for BaseART's own (empty) hooks: `fit` as generated here is `Art.Gen.BaseART.fit` of ArtGen/Control.lean, and
    `fit_gif` with `max_iter >= 1` returns exactly what it returns (every `-1` has been overwritten by the first
    epoch); with `max_iter = 0` they differ in `labels_` only (`-1`s against `0`s);
  * hence (ControlFit.lean) `fit_gif` is the model's `fitEpochs`, with the C05 / C06 / C07 corollaries.

The translation is syntax-directed.  Rules inherited from ctrans (see its docstring and DESIGN §12.1):
  x = e ; self.a = e ; self.a = [] ; self.a: T = [] ; if / else (join of the re-bound variables) ; return self ;
  e.shape[0] ; enumerate(X) -> List.zipIdx ; range(n) -> List.range ; tqdm(it, …) -> it ; int(n) ;
  guard calls, `is_fitted_`, `from tqdm import tqdm`, docstrings: dropped (see DROPPED).
Rules of this module:
  import matplotlib… / from matplotlib… import a, b          ->  dropped; the imported names become *plotting names*
  if P is None: B [else: B']   (P one of the plotting parameters ax / filename / colors / n_cluster_estimate / fps)
                                                            ->  dropped, provided every statement of B, B' is a
                             matplotlib import, a *plotting assignment* or a *plotting call* (next two rules)
  n = e / n1, n2 = e    (plotting assignment: every target is a plain local name that is not a variable of the
                         training code; `e` reads only plotting names, plotting parameters, `np`, constants and
                         `self.__class__.__name__`, and — at the top level of the function — is a call of a plotting
                         name, e.g. `writer = PillowWriter(fps=fps)`)
                                                            ->  dropped; the targets become plotting names
  p.m(args) / p.a.m(args)   as a statement, p a plotting name (ax.clear(), ax.set_xlim(…), writer.grab_frame());
                            the arguments read only plotting names / parameters / constants
                                                            ->  dropped
  self.visualize(args)  as a statement; the arguments are loads of X, self.<attr>, plotting names, **kwargs (no call)
                                                            ->  dropped (a read-only accessor, see DROPPED)
  with p.m(args) [as q]: B    (p a plotting name)           ->  B   (the statements of B, in place)
  any later read of a plotting name by a statement that is translated                      ->  Unsupported
  any store of a dropped statement into a variable of the training code, into `self.…` or into a subscript -> Unsupported
  -np.ones((n,), dtype=int)                                 ->  List.replicate n (-1 : Int)
  np.zeros((n,), dtype=int)                                 ->  List.replicate n (0 : Int)
  self.labels_[i] = c     (c : Nat, the label step_fit returns; labels_ : List Int)
                                                            ->  let self_labels := self_labels.set i (Int.ofNat c)
  self.h(X)   h one of the hooks pre_step_fit / post_step_fit / post_fit, as a statement
                                                            ->  let self_ := H.h ⟨self attributes⟩ X ; re-bind every attribute
                             (the hooks are reached through `self.`: fields of `Art.ImpFitGif.Hooks`; BaseART's own bodies are
                              translated as `pre_step_fit` / `post_step_fit` / `post_fit` and collected in `base_hooks`)
  c = self.step_fit(args)                                   ->  let r_ := Art.Gen.BaseART.step_fit E (len W) (toBase ⟨self attributes⟩) args
                                                                let self_ := ofBase ⟨self attributes⟩ r_.1 ; re-bind every attribute ; let c := r_.2
                             arguments follow the signature of BaseART.step_fit as read from its source (keywords resolved,
                             no default substituted: a missing argument is Unsupported, callbacks passed through); the view
                             leaves `labels_` out, so the translator checks on the source that step_fit and every BaseART
                             method it reaches through `self.` never mention `labels_` — otherwise Unsupported
  for t in it: B ; rest                                     ->  match forEach (fun vars t => B) it vars with | .ret r => r | .next vars => rest
                             (ctrans' rule, re-emitted here because the helper definitions also take the hooks `H`)
Anything else raises `Unsupported`: the translator fails closed.
"""
from __future__ import annotations

import ast
import os
import re
import sys
from contextlib import contextmanager
from pathlib import Path

from . import ctrans as C
from .ktrans import Unsupported, find_function

VERIF = Path(__file__).resolve().parents[2]
BASE_FILE = C.BASE
CLS = "BaseART"
HOOKS = ["pre_step_fit", "post_step_fit", "post_fit"]
METHODS = ["fit", "fit_gif"]
PLOT_PARAMS = ["ax", "filename", "colors", "n_cluster_estimate", "fps"]     # parameters of fit_gif that only drawing reads
PLOT_KWARGS = "kwargs"                                                     # **kwargs: forwarded to self.visualize only
NAMESPACE = "Art.Gen.FitGif"
SELF_TY = "Art.ImpFitGif.SelfZ Wt P"
HOOKS_TY = "Art.ImpFitGif.Hooks Xt Wt P"
EXT_TY = "Art.Imp.Ext Xt Wt P C α"
HEADER_CLASSES = C.HEADER_CLASSES
STEP_FIT = "Art.Gen.BaseART.step_fit"

COVERS = ("BaseART.fit_gif (artlib/common/BaseART.py) — the training loop of fit with matplotlib drawing in between and "
          "labels_ started from -1 — is translated after its drawing statements are removed by explicit rules (matplotlib "
          "imports, the `if ax / filename / colors is None` blocks, writer = PillowWriter(…), ax.…(…), writer.grab_frame(), "
          "self.visualize(…); `with writer.saving(…): B` -> B), together with BaseART.fit and the three empty hooks under the "
          "same rules (labels_ over Int; self.pre_step_fit / post_step_fit / post_fit stay fields of Art.ImpFitGif.Hooks; "
          "self.step_fit is a call of the step_fit generated by ctrans through a view without labels_).  Proved: for every "
          "hooks the loop bodies of fit_gif are those of fit and both calls are that loop from the -1 / 0 filled vector; with "
          "BaseART's hooks the fit generated here is Art.Gen.BaseART.fit of ArtGen/Control.lean (hence the model's fitEpochs "
          "by ControlFit.fit_spec), and fit_gif with max_iter >= 1 returns exactly what fit returns, for all X, reset "
          "functions, modes, epsilons (with max_iter = 0 labels_ stays -1 where fit leaves 0); the kernel methods stay fields "
          "of Art.Imp.Ext; matplotlib, BaseART.visualize and the guards validate_data / check_dimensions are not translated.")

THEOREMS = [
    "FitGif.step_fit_labels_frame",
    "FitGif.fit_gif_loop1_body_eq", "FitGif.fit_gif_loop2_body_eq", "FitGif.fit_gif_eq_fitFrom", "FitGif.fit_eq_fitFrom",
    "FitGif.base_hooks_id",
    "FitGif.epoch_sim", "FitGif.labels_overwritten", "FitGif.fitFrom_labels_length",
    "FitGif.fit_eq_control_fit", "FitGif.fit_gif_eq_fit", "FitGif.fit_gif_eq_generated_fit", "FitGif.fit_gif_zero_epochs",
    "FitGif.fit_gif_labels_nonneg",
    "FitGif.fit_gif_spec", "FitGif.fit_gif_one_consistent", "FitGif.fit_gif_restores_params",
    "FitGif.fit_gif_history_independent", "FitGif.scalar_fit_gif",
]

DROPPED = {
    "docstrings, type annotations, `from tqdm import tqdm`": "ctrans.strip_doc / tr_block: no effect on the state",
    "self.validate_data(X), self.check_dimensions(X)":
        "ctrans rule GUARDS: they raise on invalid data or record the data width; the theorems are about calls on valid "
        "data (validation is C18's subject)",
    "self.is_fitted_ = True": "ctrans rule WRITE_ONLY: a flag none of the translated code reads",
    "tqdm(it, total=…)": "ctrans: a progress bar is the identity on the iterator",
    "the unused parameter y of fit / fit_gif": "ctrans IGNORED_PARAMS (sklearn compatibility; BaseART never reads it)",
    "parameter defaults": "never substituted: every call site of a generated method must supply every argument",
    "import matplotlib.pyplot as plt / from matplotlib.animation import PillowWriter / from matplotlib.pyplot import cm":
        "rule `matplotlib import`: binds plotting names only; a translated statement that reads one is Unsupported",
    "the parameters ax, filename, colors, n_cluster_estimate, fps, **kwargs of fit_gif":
        "plotting parameters: only dropped statements may read them (a translated statement that reads one is Unsupported)",
    "if ax is None: … / if filename is None: … / if colors is None: …":
        "rule `plotting default`: the blocks bind plotting locals (fig, ax, filename, colors, black) and call ax.set_xlim / "
        "set_ylim; every store in them is checked to be a plain local name that is neither a parameter nor a variable of "
        "the training code, and the training statements cannot read it (Unsupported otherwise)",
    "writer = PillowWriter(fps=fps)": "rule `plotting assignment`: a call of a matplotlib name bound to a fresh local",
    "ax.clear(), ax.set_xlim(…), ax.set_ylim(…), writer.grab_frame()":
        "rule `plotting call`: method calls on plotting locals with plotting arguments; they draw, they cannot reach `self`",
    "self.visualize(X, self.labels_, ax, colors=colors, **kwargs)":
        "rule `visualize`: a read-only accessor (it draws X coloured by labels_ and the category bounds on the axes it is "
        "given); that it does not mutate the estimator is not proved here — it is what the snapshot oracles of the "
        "read-only property checks (C08 / C07: prediction-side and accessor calls leave the estimator bit-identical) cover",
    "with writer.saving(fig, filename, dpi=80): B":
        "rule `with`: replaced by B; entering / leaving the context opens / finalises the gif file, nothing of `self`",
    "-np.ones dtype / array aliasing": "labels_ is a fresh list of -1 : Int; `self.labels_[i] = c` stores the label "
        "step_fit returned (a Python int >= 0) as Int.ofNat c",
    "dynamic dispatch of self.step_fit": "resolved to BaseART.step_fit (the receiver is a BaseART that does not override "
        "it: the elementary modules); receivers that override step_fit (TopoART, DualVigilanceART, CVIART) are wtrans' / "
        "gtrans' subject for fit and are not covered for fit_gif",
}

_ORIG = {}
_CUR = {}


# --------------------------------------------------------------------------------------------- plotting rules

def _root_name(e: ast.AST):
    """the name at the root of an attribute chain `n.a.b`"""
    while isinstance(e, ast.Attribute):
        e = e.value
    return e.id if isinstance(e, ast.Name) else None


def _plot_names() -> set:
    return _CUR["plot"]


def check_plot_expr(e: ast.AST, what: str, allow_self_loads: bool = False):
    """`e` may read plotting names / parameters, `np`, constants, `self.__class__.__name__` — nothing of the training code"""
    for n in ast.walk(e):
        if isinstance(n, (ast.NamedExpr, ast.Lambda, ast.Await, ast.Yield, ast.YieldFrom)):
            raise Unsupported(f"{what}: {type(n).__name__} in a dropped statement")
        if isinstance(n, ast.Name):
            if n.id == "self":
                continue                  # checked through the Attribute nodes below
            if not isinstance(n.ctx, ast.Load):
                continue                  # stores are checked by the caller
            if n.id in _plot_names() or n.id == "np":
                continue
            if allow_self_loads and n.id in _CUR["data_names"]:
                continue
            raise Unsupported(f"{what}: reads `{n.id}`, which is not a plotting name")
    # every occurrence of `self` must be `self.__class__.__name__` (or, for visualize, a plain attribute load)
    parents = {}
    for n in ast.walk(e):
        for ch in ast.iter_child_nodes(n):
            parents[ch] = n
    for n in ast.walk(e):
        if isinstance(n, ast.Name) and n.id == "self":
            p = parents.get(n)
            if not (isinstance(p, ast.Attribute) and isinstance(p.ctx, ast.Load)):
                raise Unsupported(f"{what}: uses `self` itself")
            if p.attr == "__class__":
                pp = parents.get(p)
                if isinstance(pp, ast.Attribute) and pp.attr == "__name__":
                    continue
                raise Unsupported(f"{what}: self.__class__ used for something else than its name")
            pp = parents.get(p)
            if allow_self_loads and not (isinstance(pp, ast.Call) and pp.func is p) and not isinstance(pp, ast.Attribute):
                continue                  # self.<attr> passed as an argument (a load)
            raise Unsupported(f"{what}: reaches `self.{p.attr}`")


def plot_targets(t: ast.AST, env, what: str) -> list[str]:
    names = []
    elts = t.elts if isinstance(t, ast.Tuple) else [t]
    for x in elts:
        if not isinstance(x, ast.Name):
            raise Unsupported(f"{what}: a dropped statement stores into `{ast.unparse(x)}`")
        if (x.id in env.names and x.id not in _plot_names()) or x.id == "self" or x.id in _CUR["train_params"]:
            raise Unsupported(f"{what}: a dropped statement re-binds `{x.id}`, a variable of the training code")
        names.append(x.id)
    return names


def is_mpl_import(s: ast.AST) -> bool:
    if isinstance(s, ast.Import):
        return all(a.name.split(".")[0] == "matplotlib" for a in s.names)
    if isinstance(s, ast.ImportFrom):
        return s.level == 0 and (s.module or "").split(".")[0] == "matplotlib"
    return False


def drop_mpl_import(s):
    for a in s.names:
        nm = a.asname or a.name.split(".")[0]
        if nm in _CUR["train_params"] or nm in ("self", "np"):
            raise Unsupported(f"import binds `{nm}`, a variable of the training code")
        _plot_names().add(nm)


def is_plot_call_stmt(s: ast.AST) -> bool:
    return (isinstance(s, ast.Expr) and isinstance(s.value, ast.Call) and isinstance(s.value.func, ast.Attribute)
            and _root_name(s.value.func) in _plot_names())


def try_drop(s: ast.AST, env, top: bool) -> bool:
    """apply the dropping rules to one statement; True = dropped"""
    if is_mpl_import(s):
        drop_mpl_import(s)
        return True
    if isinstance(s, ast.Assign) and len(s.targets) == 1 and isinstance(s.targets[0], (ast.Name, ast.Tuple)):
        e = s.value
        # at the top level only `n = <plotting name>(…)` is a plotting assignment (anything else is translated, and fails
        # closed there if it reads a plotting name); inside an `if P is None:` block every assignment must be one
        if top and not (isinstance(e, ast.Call) and _root_name(e.func) in _plot_names()):
            return False
        what = f"plotting assignment `{ast.unparse(s)[:50]}`"
        check_plot_expr(e, what)
        for nm in plot_targets(s.targets[0], env, what):
            _plot_names().add(nm)
        return True
    if is_plot_call_stmt(s):
        check_plot_expr(s.value, f"plotting call `{ast.unparse(s)[:50]}`")
        return True
    if isinstance(s, ast.Expr) and C.self_call(s.value) and C.self_call(s.value)[0] == "visualize":
        call = s.value
        what = "self.visualize(…)"
        for a_ in list(call.args) + [kw.value for kw in call.keywords]:
            if any(isinstance(n, ast.Call) for n in ast.walk(a_)):
                raise Unsupported(f"{what}: an argument contains a call")
            check_plot_expr(a_, what, allow_self_loads=True)
        return True
    if isinstance(s, ast.If) and isinstance(s.test, ast.Compare) and len(s.test.ops) == 1 and isinstance(s.test.ops[0], ast.Is) \
            and isinstance(s.test.left, ast.Name) and s.test.left.id in PLOT_PARAMS \
            and isinstance(s.test.comparators[0], ast.Constant) and s.test.comparators[0].value is None:
        for b in C.strip_doc(s.body) + C.strip_doc(s.orelse):
            if isinstance(b, ast.If) or not try_drop(b, env, top=False):
                raise Unsupported(f"`if {s.test.left.id} is None:` contains `{ast.unparse(b)[:60]}`, which is not a plotting statement")
        return True
    return False


# ---------------------------------------------------------------------------------------------- expressions

def g_ext(e: ast.AST, env):
    if isinstance(e, ast.Name) and e.id in _plot_names() and e.id not in env.names:
        raise Unsupported(f"a translated statement reads the plotting name `{e.id}`")
    if isinstance(e, ast.Name) and e.id == PLOT_KWARGS:
        raise Unsupported("a translated statement reads **kwargs")
    if isinstance(e, ast.UnaryOp) and isinstance(e.op, ast.USub) and isinstance(e.operand, ast.Call) \
            and ast.unparse(e.operand.func) == "np.ones":
        c = e.operand
        if len(c.args) == 1 and isinstance(c.args[0], ast.Tuple) and len(c.args[0].elts) == 1 \
                and [ast.unparse(k_) for k_ in c.keywords] == ["dtype=int"]:
            n_, nty = C.ext(c.args[0].elts[0], env)
            if nty != "Nat":
                raise Unsupported("np.ones length")
            return f"(List.replicate {n_} (-1 : Int))", ("list", "Int")
        raise Unsupported(f"call {ast.unparse(e)[:80]}")
    if isinstance(e, ast.Call) and ast.unparse(e.func) == "np.zeros":
        if len(e.args) == 1 and isinstance(e.args[0], ast.Tuple) and len(e.args[0].elts) == 1 \
                and [ast.unparse(k_) for k_ in e.keywords] == ["dtype=int"]:
            n_, nty = C.ext(e.args[0].elts[0], env)
            if nty != "Nat":
                raise Unsupported("np.zeros length")
            return f"(List.replicate {n_} (0 : Int))", ("list", "Int")
        raise Unsupported(f"call {ast.unparse(e)[:80]}")
    return _ORIG["ext"](e, env)


# ----------------------------------------------------------------------------------------------- statements

def step_fit_reach() -> list[str]:
    """BaseART.step_fit and every BaseART method it reaches through `self.`"""
    tree = _CUR["tree"]
    seen, todo = [], ["step_fit"]
    while todo:
        m = todo.pop()
        if m in seen:
            continue
        seen.append(m)
        f = find_function(tree, CLS, m)
        for n in ast.walk(f):
            sc = C.self_call(n)
            if sc:
                find_function(tree, CLS, sc[0])        # Unsupported when BaseART does not define it
                todo.append(sc[0])
    return seen


def check_view():
    """rule `step_fit through the view`: nothing step_fit reaches mentions labels_"""
    tree = _CUR["tree"]
    for m in step_fit_reach():
        f = find_function(tree, CLS, m)
        for n in ast.walk(f):
            if isinstance(n, ast.Attribute) and n.attr == "labels_":
                raise Unsupported(f"BaseART.{m} (reached from step_fit) mentions labels_: the view without labels_ is not faithful")
            if isinstance(n, ast.Call) and isinstance(n.func, ast.Name) and n.func.id in ("getattr", "setattr", "vars", "delattr"):
                raise Unsupported(f"BaseART.{m} (reached from step_fit) uses {n.func.id}")
            if isinstance(n, ast.Attribute) and n.attr == "__dict__":
                raise Unsupported(f"BaseART.{m} (reached from step_fit) uses __dict__")


def call_step_fit(call: ast.Call, env, target: str) -> list[str]:
    f = find_function(_CUR["tree"], CLS, "step_fit")
    a = f.args
    if a.vararg or a.kwarg or a.kwonlyargs or a.posonlyargs or f.decorator_list:
        raise Unsupported("step_fit: signature")
    names = [x.arg for x in a.args[1:]]
    if len(call.args) > len(names) or any(isinstance(x, ast.Starred) for x in call.args):
        raise Unsupported("step_fit: positional arguments")
    given = dict(zip(names, call.args))
    for kw in call.keywords:
        if kw.arg is None or kw.arg in given or kw.arg not in names:
            raise Unsupported(f"step_fit: keyword {kw.arg if kw.arg else '**'}")
        given[kw.arg] = kw.value
    args = []
    for n_ in names:
        if n_ not in given:
            raise Unsupported(f"step_fit: argument {n_} not supplied at the call (defaults are not translated)")
        a_ = given[n_]
        if n_ in C.CALLBACKS:
            if not (isinstance(a_, ast.Name) and a_.id in env.callbacks):
                raise Unsupported(f"step_fit: {n_} must be passed through")
            args += [env.names[a_.id] + "_is_none", env.names[a_.id]]
            continue
        if n_ not in C.PARAM_TYPES:
            raise Unsupported(f"step_fit: parameter {n_} unknown")
        ty_ = C.ext(a_, env)[1]
        if ty_ != C.PARAM_TYPES[n_]:
            raise Unsupported(f"step_fit: argument {n_} has type {ty_}, expected {C.PARAM_TYPES[n_]}")
        args.append(C.arg(a_, env))
    check_view()
    pack = C.self_pack()
    lines = [f"let r_ := {STEP_FIT} E (self_W).length (Art.ImpFitGif.SelfZ.toBase {pack}) " + " ".join(args),
             f"let self_ := Art.ImpFitGif.SelfZ.ofBase {pack} r_.1"]
    lines += C.self_unpack("self_", env)
    v = env.bind(target, "Nat")
    lines.append(f"let {v} := r_.2")
    return lines


def call_hook(m: str, call: ast.Call, env) -> list[str]:
    f = find_function(_CUR["tree"], CLS, m)
    if [x.arg for x in f.args.args] != ["self", "X"] or f.args.vararg or f.args.kwarg or f.args.kwonlyargs or f.decorator_list:
        raise Unsupported(f"{m}: signature")
    if len(call.args) != 1 or call.keywords:
        raise Unsupported(f"{m}: arguments")
    t_, ty_ = C.ext(call.args[0], env)
    if ty_ != ("list", "Xt"):
        raise Unsupported(f"{m}: the argument is not the data set")
    lines = [f"let self_ := H.{m} {C.self_pack()} {C.arg(call.args[0], env)}"]
    lines += C.self_unpack("self_", env)
    return lines


def g_tr_block(stmts, env, k):
    stmts = C.strip_doc(stmts)
    if not stmts:
        return k.fall(env)
    s, rest = stmts[0], stmts[1:]
    if _CUR["fn"] == "fit_gif":
        if isinstance(s, ast.With):
            if len(s.items) != 1 or not isinstance(s.items[0].context_expr, ast.Call) \
                    or not isinstance(s.items[0].context_expr.func, ast.Attribute) \
                    or _root_name(s.items[0].context_expr.func) not in _plot_names():
                raise Unsupported(f"with {ast.unparse(s.items[0].context_expr)[:60]}: not a context of a plotting name")
            check_plot_expr(s.items[0].context_expr, "with")
            if s.items[0].optional_vars is not None:
                for nm in plot_targets(s.items[0].optional_vars, env, "with … as"):
                    _plot_names().add(nm)
            return C.tr_block(list(s.body) + list(rest), env, k)
        if try_drop(s, env, top=True):
            return C.tr_block(rest, env, k)
    if isinstance(s, (ast.Import, ast.ImportFrom)):
        if isinstance(s, ast.ImportFrom) and s.module == "tqdm" and [a.name for a in s.names] == ["tqdm"] and s.names[0].asname is None:
            return C.tr_block(rest, env, k)
        raise Unsupported(f"import `{ast.unparse(s)}`")
    if isinstance(s, ast.Expr) and C.self_call(s.value) and C.self_call(s.value)[0] not in C.GUARDS:
        m, call = C.self_call(s.value)
        if m in HOOKS:
            return call_hook(m, call, env) + C.tr_block(rest, env, k)
        raise Unsupported(f"call of self.{m} as a statement")
    if isinstance(s, ast.Assign) and len(s.targets) == 1 and C.self_call(s.value):
        m, call = C.self_call(s.value)
        if m != "step_fit" or not isinstance(s.targets[0], ast.Name):
            raise Unsupported(f"value of self.{m}(…)")
        return call_step_fit(call, env, s.targets[0].id) + C.tr_block(rest, env, k)
    if isinstance(s, ast.Assign) and len(s.targets) == 1 and isinstance(s.targets[0], ast.Subscript) \
            and C.is_self_attr(s.targets[0].value) in C.SELF_FIELDS \
            and C.SELF_TYPES[C.is_self_attr(s.targets[0].value)] == ("list", "Int"):
        t = s.targets[0]
        if isinstance(t.slice, ast.Slice):
            raise Unsupported("slice store into labels_")
        a0 = C.is_self_attr(t.value)
        old = C.ex(t.value, env)
        idx, ity = C.ext(t.slice, env)
        val, vty = C.ext(s.value, env)
        if ity != "Nat":
            raise Unsupported(f"labels_ index of type {ity}")
        if vty == "Nat":
            val = f"(Int.ofNat {val})"
        elif vty != "Int":
            raise Unsupported(f"store of a {vty} into labels_")
        v0 = env.bind_self(a0)
        return [f"let {v0} := {old}.set {C.arg(t.slice, env)} {val}"] + C.tr_block(rest, env, k)
    if isinstance(s, ast.While):
        raise Unsupported("while loop (fit / fit_gif have none)")
    if isinstance(s, ast.For):
        return for_stmt(s, rest, env, k)
    return _ORIG["tr_block"](stmts, env, k)


def for_stmt(s: ast.For, rest, env, k) -> list[str]:
    """ctrans' `for` rule; the helper definitions take the hooks `H` as well"""
    if s.orelse:
        raise Unsupported("for/else")
    it, ity = C.ext(s.iter, env)
    before = env.defined()

    def bind_target(e_):
        if isinstance(s.target, ast.Name):
            if isinstance(ity, tuple) and ity[0] == "enum":
                raise Unsupported("enumerate needs two loop variables")
            nm = s.target.id if s.target.id != "_" else "it_"
            return e_.bind(nm, C.elem_ty(ity, "for"))
        if isinstance(s.target, ast.Tuple) and len(s.target.elts) == 2 and all(isinstance(t_, ast.Name) for t_ in s.target.elts) \
                and isinstance(ity, tuple) and ity[0] == "enum":
            i_ = e_.bind(s.target.elts[0].id, "Nat")
            v_ = e_.bind(s.target.elts[1].id, ity[1])
            return f"({v_}, {i_})"          # List.zipIdx yields (value, index)
        raise Unsupported(f"for target {ast.unparse(s.target)}")
    saved_plot = set(_plot_names())
    d = env.copy()
    d.rec, d.helpers, d.loopn = [], [], [0]
    bind_target(d)
    d.rec = []
    C.tr_block(s.body, d, C.K(lambda e_: [], lambda t_: ""))
    _CUR["plot"] = set(saved_plot)            # the dry run must not leak plotting names it discovered
    carried = [v for v in d.rec if v in before]
    if not carried:
        raise Unsupported("for loop that changes nothing")
    tup = C.tuple_pat(carried)
    state_ty = C.lean_ty(("prod", [env.types[v] for v in carried])) if len(carried) > 1 else C.lean_ty(env.types[carried[0]])
    elem_lean = C.lean_ty(("prod", [ity[1], "Nat"])) if ity[0] == "enum" else C.lean_ty(C.elem_ty(ity, "for"))
    be = env.copy()
    be.in_loop = True
    pat = bind_target(be)
    body = C.tr_block(s.body, be, C.K(lambda e_: [f".next {tup}"], lambda t_: f".ret {t_}"))
    env.loopn[0] += 1
    k_ = env.loopn[0]
    bname = f"{env.fn}_loop{k_}_body"
    own = set(re.findall(r"[A-Za-z_][A-Za-z_0-9]*", pat))
    bfv = C.free_vars("\n".join(body), env, exclude=list(carried) + list(own))
    env.helpers.append("\n".join(
        [f"/-- loop {k_} of `{CLS}.{env.fn}`: one iteration of `for {ast.unparse(s.target)} in {ast.unparse(s.iter)}` -/",
         f"def {bname} {HEADER_CLASSES}",
         f"    (E : {EXT_TY}) (H : {HOOKS_TY}) " + " ".join(C.param_decl(v, env) for v in bfv) + " :",
         f"    {state_ty} → {elem_lean} → Art.Imp.Flow ({C.ret_type(env)}) ({state_ty}) :=",
         f"  fun {tup} {pat} =>"] + C.ind(body, 4)) + "\n")
    for v in carried:
        env._mark(v)
    after = C.tr_block(rest, env, k)
    return ([f"match Art.Imp.forEach ({bname} E H {' '.join(bfv)}) {it} {tup} with",
             f"| .ret r_ => {k.ret('r_')}", f"| .next {tup} =>"] + C.ind(after))


def translate_method(name: str) -> str:
    tree = _CUR["tree"]
    f = find_function(tree, CLS, name)
    if f.decorator_list:
        raise Unsupported(f"{name}: decorators")
    _CUR["fn"] = name
    _CUR["plot"] = set()
    env = C.Env(tree, CLS)
    env.fn = name
    env.ret_ty = C.METHOD_RET[name]
    params = []
    a = f.args
    if a.vararg or a.kwonlyargs or a.posonlyargs:
        raise Unsupported(f"{name}: signature")
    if a.kwarg is not None:
        if name != "fit_gif" or a.kwarg.arg != PLOT_KWARGS:
            raise Unsupported(f"{name}: **{a.kwarg.arg}")
        _CUR["plot"].add(PLOT_KWARGS)
    train_params = set()
    for x in a.args[1:]:
        if x.arg in C.IGNORED_PARAMS:
            continue
        if name == "fit_gif" and x.arg in PLOT_PARAMS:
            _CUR["plot"].add(x.arg)              # rule `plotting parameter`
            continue
        train_params.add(x.arg)
        if x.arg in C.CALLBACKS:
            env.callbacks.add(x.arg)
            env.names[x.arg] = x.arg
            params += [f"({x.arg}_is_none : Bool)", f"({x.arg} : {C.CALLBACK_TYPE[x.arg]})"]
        elif x.arg in C.PARAM_TYPES:
            env.names[x.arg] = x.arg
            env.types[x.arg] = C.PARAM_TYPES[x.arg]
            params.append(f"({x.arg} : {C.lean_ty(C.PARAM_TYPES[x.arg])})")
        else:
            raise Unsupported(f"{name}: parameter {x.arg}")
    _CUR["train_params"] = train_params
    _CUR["data_names"] = {"X"} & train_params

    def no_fall(e_):
        raise Unsupported(f"{name}: a path ends without return")
    body = C.tr_block(f.body, env, C.K(no_fall, lambda t_: t_))
    head = [f"/-- generated from `{CLS}.{name}`" + (" (drawing statements removed by the rules of gftrans) -/" if name == "fit_gif" else " -/"),
            f"def {name} {HEADER_CLASSES}",
            f"    (E : {EXT_TY}) (H : {HOOKS_TY}) (self : {SELF_TY}) " + " ".join(params) + " :",
            f"    {C.ret_type(env)} :="]
    pre = [f"let {v} := self.{fld}" for v, fld in C.SELF_FIELDS.values()]
    return "\n".join(env.helpers) + ("\n" if env.helpers else "") + "\n".join(head + C.ind(pre + body)) + "\n"


def translate_hook(name: str) -> str:
    """BaseART's own body of a hook: `def h(self, X): <statements without return>`  ->  the instance afterwards"""
    tree = _CUR["tree"]
    f = find_function(tree, CLS, name)
    if [x.arg for x in f.args.args] != ["self", "X"] or f.args.vararg or f.args.kwarg or f.args.kwonlyargs or f.decorator_list:
        raise Unsupported(f"{name}: signature")
    _CUR["fn"] = name
    _CUR["plot"] = set()
    _CUR["train_params"] = {"X"}
    _CUR["data_names"] = {"X"}
    env = C.Env(tree, CLS)
    env.fn = name
    env.ret_ty = "Unit"
    env.names["X"] = "X"
    env.types["X"] = ("list", "Xt")
    if C.contains_return(f.body):
        raise Unsupported(f"{name}: returns a value")

    def bad_ret(t_):
        raise Unsupported(f"{name}: return")
    body = C.tr_block(f.body, env, C.K(lambda e_: [C.self_pack()], bad_ret))
    head = [f"/-- generated from `{CLS}.{name}` (the body BaseART itself gives the hook) -/",
            f"def {name} {{Xt Wt P : Type}} (self : {SELF_TY}) (X : List Xt) : {SELF_TY} :="]
    pre = [f"let {v} := self.{fld}" for v, fld in C.SELF_FIELDS.values()]
    return "\n".join(head + C.ind(pre + body)) + "\n"


@contextmanager
def _profile(tree):
    """install the profile and the two wrappers into ctrans; restore everything afterwards"""
    base = C.PROFILES["BaseART"]
    prof = dict(
        SELF_FIELDS=dict(base["SELF_FIELDS"]), SELF_TYPES=dict(base["SELF_TYPES"], labels_=("list", "Int")), SELF_TY=SELF_TY,
        METHOD_RET={"fit": "Unit", "fit_gif": "Unit"},
        TRANSLATED=[], INLINE=set(), PURE_INLINE=set(), NESTED={}, NAMESPACE=NAMESPACE,
        FILE=BASE_FILE, PARAM_TYPES=dict(base["PARAM_TYPES"]), IGNORED_PARAMS={"y"}, WRITE_ONLY={"is_fitted_"},
        HAS_FLAGS={"W": "__hasW"}, EXTERNAL={}, GUARDS={"validate_data", "check_dimensions"}, GUARD_FUNCS=set(),
        HEADER_CLASSES=HEADER_CLASSES,
    )
    keys = list(prof) + ["ext", "tr_block"]
    saved = {key: getattr(C, key) for key in keys if hasattr(C, key)}
    missing = [key for key in keys if not hasattr(C, key)]
    _ORIG["ext"], _ORIG["tr_block"] = C.ext, C.tr_block
    _CUR.update(tree=tree, fn="", plot=set(), train_params=set(), data_names=set())
    try:
        for key, val in prof.items():
            setattr(C, key, val)
        C.ext, C.tr_block = g_ext, g_tr_block
        yield
    finally:
        for key, val in saved.items():
            setattr(C, key, val)
        for key in missing:
            if hasattr(C, key):
                delattr(C, key)
        _ORIG.clear()
        _CUR.clear()


def generate(repo: Path) -> str:
    repo = Path(repo)
    tree = ast.parse((repo / BASE_FILE).read_text())
    nodes = [n for n in tree.body if isinstance(n, ast.ClassDef) and n.name == CLS]
    if len(nodes) != 1:
        raise Unsupported(f"class {CLS} not found (once)")
    for m in METHODS + HOOKS + ["step_fit"]:
        if len([f for f in nodes[0].body if isinstance(f, ast.FunctionDef) and f.name == m]) != 1:
            raise Unsupported(f"{CLS}.{m} is not defined exactly once")
    chunks = ["/-",
              "GENERATED by harness/artv/gftrans.py from artlib/common/BaseART.py (fit_gif; fit and the hooks pre_step_fit /",
              "post_step_fit / post_fit under the same rules) — do not edit.  Regenerated on every run of the checks that name it;",
              "`ArtGenProofs/FitGifSpec.lean` proves the loop bodies of fit_gif equal to those of fit for every hooks, and with",
              "BaseART's hooks fit equal to `Art.Gen.BaseART.fit` (ArtGen/Control.lean) and fit_gif (max_iter >= 1) equal to fit.",
              "-/",
              "import ArtModel.ImpFitGif",
              "import ArtGen.Control",
              "",
              "set_option linter.unusedVariables false",
              "",
              f"namespace {NAMESPACE}",
              ""]
    with _profile(tree):
        for h in HOOKS:
            chunks.append(translate_hook(h))
        chunks.append("\n".join(
            ["/-- the hooks of a receiver that does not override them (method lookup ends in BaseART) -/",
             f"def base_hooks {{Xt Wt P : Type}} : {HOOKS_TY} :=",
             "  { " + ", ".join(f"{h} := {h}" for h in HOOKS) + " }"]) + "\n")
        for m in METHODS:
            chunks.append(translate_method(m))
    chunks += [f"end {NAMESPACE}", ""]
    return "\n".join(chunks)


def write(repo: Path = None) -> tuple[bool, str]:
    repo = Path(repo or os.environ.get("VERIF_REPO", "/repo"))
    out = VERIF / "lean" / "ArtGen" / "FitGif.lean"
    try:
        text = generate(repo)
    except (Unsupported, SyntaxError, OSError, KeyError, AttributeError, TypeError, IndexError) as e:
        return False, f"fit_gif translator failed closed: {type(e).__name__}: {e}"
    if not out.exists() or out.read_text() != text:
        tmp = out.with_suffix(".lean.tmp")
        tmp.write_text(text)
        os.replace(tmp, out)
    return True, "generated"


if __name__ == "__main__":
    ok, msg = write(Path(sys.argv[1]) if len(sys.argv) > 1 else None)
    print(msg)
    sys.exit(0 if ok else 1)
