"""Kernel translator: Python AST of artlib's straight-line numeric kernels  ->  Lean 4 definitions.

Run on every check of C03 (and by hand: `python -m artv.ktrans [repo]`).  It reads the *source files* of
`$VERIF_REPO/artlib/elementary/{FuzzyART,ART1,ART2,HypersphereART,EllipsoidART,GaussianART}.py` (no import), translates the bodies
of `category_choice`, `match_criterion`, `update`, `new_weight` (and `HypersphereART.category_distance`)
into Lean definitions over an ordered field and writes `lean/ArtGen/Kernels.lean`.  The committed file
`lean/ArtGenProofs/GenSpec.lean` proves `Gen.<Class>.<fn> = <published definition of ArtModel/Kernels>`
for ALL arguments — so a change of a formula in the source breaks a proof obligation, not a sample.

The translator fails closed: any syntax outside the supported subset raises `Unsupported`, the generated
file is then not produced and the obligation is reported broken.

Supported subset
  statements : `x = e`, `return e` / `return e, cache`, `if c: … else: …` (branches ending in return or
               assigning the same names), `if <name> is None: raise/return …` (dropped: the None branch is
               outside the kernels' contract), `cache = {…}` (each entry becomes its own definition)
  expressions: names, numbers, + - * / unary -, comparisons, `a if c else b`, `params["k"]`, `cache["k"]`,
               `self.dim_`, `self.dim_original`, slices `w[:n]`, `w[n:]`, `w[:-1]`, `w[-1]`,
               calls l1norm, l2norm2, fuzzy_and, np.minimum, np.sum, np.dot, np.matmul, np.sqrt, np.concatenate,
               np.logical_and, np.copy, float, max, min, self.category_distance, np.exp, np.multiply, np.prod,
               `sum(w_[-1] for w_ in self.W)`, `v ** 2`, `w[a:b]`, `w[-k]`, dyadic float constants
Types are inferred bottom-up: S (scalar), V (vector), N (the natural number dim_).

Binder names are part of the statement.  Everything a generated definition reads from a *keyed* source gets a binder
whose NAME is derived from the key, and `GenSpec.lean` passes these binders BY NAME (`(p_beta := beta)`), so a source
change that reads a different key of the same type renames the binder and the application no longer elaborates:

  Python read                     binder                        kind
  ------------------------------  ----------------------------  ---------------------------------------------------
  params["k"]                     p_k : α   (List α if k is in VECTOR_PARAMS)      hyper-parameter
  cache["k"]                      c_k : α                                          cache entry written by category_choice
  self.dim_ / self.dim_original   s_dim_ / s_dim_original : Nat                    attribute of the model (ATTRS)
  self.<any other attribute>      Unsupported
  self.params["k"], x.params["k"] Unsupported  (no translated kernel may read the model's own hyper-parameters: the
                                  caller decides which dictionary a kernel sees, e.g. match tracking passes a modified one)
  np.sqrt / np.exp / self.W       sqrt, exp : α → α / allW : List (List α)         external, not translated
  positional parameters i, w, …   i_, w_, … : List α   (in the order of the Python signature: positional in Python,
                                  positional in Lean)

The ORDER of the key-derived binders carries no meaning: externals first, then `s_`, `p_`, `c_` binders each sorted by
key, then the Python positional parameters.  A call `self.category_distance(i, c, …, params)` is rendered from the
signature of the generated `category_distance` of the same class with every non-positional binder passed by name; the
`params` argument must be the caller's own `params`, unchanged.  A key that is not an identifier, or a binder name that
clashes with the rendering `<local>_` of a local variable, raises `Unsupported`.
"""
from __future__ import annotations

import ast
import os
import sys
import textwrap
from pathlib import Path

VERIF = Path(__file__).resolve().parents[2]


class Unsupported(Exception):
    pass


FILES = {
    "FuzzyART": "artlib/elementary/FuzzyART.py",
    "ART1": "artlib/elementary/ART1.py",
    "ART2A": "artlib/elementary/ART2.py",
    "HypersphereART": "artlib/elementary/HypersphereART.py",
    "EllipsoidART": "artlib/elementary/EllipsoidART.py",
    "GaussianART": "artlib/elementary/GaussianART.py",
}
FUNCS = ["category_choice", "match_criterion", "update", "new_weight"]
EXTRA = {"HypersphereART": ["category_distance"], "EllipsoidART": ["category_distance"]}

# arguments that are vectors; everything read from params / cache is a scalar
VECTOR_ARGS = {"i", "w", "centroid", "major_axis", "data", "x", "y"}
VECTOR_PARAMS = {"sigma_init"}     # hyper-parameters that are vectors
ATTRS = {"dim_": "N", "dim_original": "N"}     # the attributes of `self` a kernel may read, with their type


def find_function(tree: ast.Module, cls: str, fn: str) -> ast.FunctionDef:
    for node in tree.body:
        if isinstance(node, ast.ClassDef) and node.name == cls:
            for f in node.body:
                if isinstance(f, ast.FunctionDef) and f.name == fn:
                    return f
    raise Unsupported(f"{cls}.{fn} not found")


class Ctx:
    def __init__(self, cls, fn):
        self.cls, self.fn = cls, fn
        self.types: dict[str, str] = {}
        self.params: list[str] = []     # params["k"] read, in order of first use
        self.cache_in: list[str] = []   # cache["k"] read
        self.attrs: list[str] = []      # self.<attr> read (members of ATTRS)
        self.assigned: set[str] = set() # local names bound by an assignment
        self.args: list[str] = []       # the vector parameters of the function
        self.ksigs: dict = {}           # generated functions of the class: name -> (python parameters, binders, type)
        self.uses_dim = False           # (the two flags are kept for k2trans, which builds its own binder list)
        self.uses_dim_original = False
        self.uses_sqrt = False
        self.uses_exp = False
        self.uses_allW = False
        self.vec_params: list[str] = []
        self.cache_out: dict[str, tuple[str, str]] = {}


    def attr_binder(self, attr: str) -> str:
        """binder of `self.<attr>`.  The base class keeps the names of before the binder discipline: `k2trans.Ctx`
        subclasses it and emits its own binders `dim` / `dimOriginal`; ktrans itself translates with `KCtx`."""
        return {"dim_": "dim", "dim_original": "dimOriginal"}[attr]


class KCtx(Ctx):
    """the context ktrans translates with: `self.<attr>` is the binder `s_<attr>`"""

    def __init__(self, cls, fn, ksigs):
        super().__init__(cls, fn)
        self.ksigs = ksigs

    def attr_binder(self, attr: str) -> str:
        return "s_" + attr


def _key(k) -> str:
    if not isinstance(k, str) or not k.isidentifier():
        raise Unsupported(f"dictionary key {k!r} is not an identifier")
    return k


def lean_name(s: str) -> str:
    return "p_" + s


def tr_expr(e: ast.AST, c: Ctx) -> tuple[str, str]:
    """returns (lean text, type)"""
    if isinstance(e, ast.Name):
        if e.id not in c.types:
            raise Unsupported(f"unknown name {e.id}")
        return e.id + "_", c.types[e.id]
    if isinstance(e, ast.Constant):
        v = e.value
        if isinstance(v, bool) or not isinstance(v, (int, float)):
            raise Unsupported(f"constant {v!r}")
        if float(v) != int(v):
            from fractions import Fraction
            fr = Fraction(float(v))
            if fr.denominator > 1024 or fr < 0:
                raise Unsupported(f"constant {v!r}")
            return f"(({fr.numerator} : α) / ({fr.denominator} : α))", "S"
        n = int(v)
        return (f"({n} : α)" if n >= 0 else f"(-{-n} : α)"), "S"
    if isinstance(e, ast.UnaryOp) and isinstance(e.op, ast.USub):
        t, ty = tr_expr(e.operand, c)
        if ty != "S":
            raise Unsupported("unary minus on a vector")
        return f"(-{t})", "S"
    if isinstance(e, ast.BinOp):
        # natural-number arithmetic on dim_ (slice bounds): k * self.dim_, self.dim_ + k
        def nat_side(x):
            if isinstance(x, ast.Constant) and isinstance(x.value, int) and not isinstance(x.value, bool) and x.value >= 0:
                return str(x.value)
            t_, ty_ = tr_expr(x, c)
            return t_ if ty_ == "N" else None
        if isinstance(e.op, (ast.Add, ast.Mult)) and (isinstance(e.left, ast.Constant) or isinstance(e.right, ast.Constant)):
            try:
                l_, r_ = nat_side(e.left), nat_side(e.right)
            except Unsupported:
                l_ = r_ = None
            if l_ is not None and r_ is not None and not (isinstance(e.left, ast.Constant) and isinstance(e.right, ast.Constant)):
                return f"({l_} {'+' if isinstance(e.op, ast.Add) else '*'} {r_})", "N"
        a, ta = tr_expr(e.left, c)
        b, tb = tr_expr(e.right, c)
        op = {ast.Add: "+", ast.Sub: "-", ast.Mult: "*", ast.Div: "/"}.get(type(e.op))
        if op is None:
            if isinstance(e.op, ast.Pow) and tb == "S" and b == "(2 : α)" and ta == "S":
                return f"({a} * {a})", "S"
            if isinstance(e.op, ast.Pow) and tb == "S" and b == "(2 : α)" and ta == "V":
                return f"(List.zipWith (fun s t => s * t) {a} {a})", "V"
            raise Unsupported(f"operator {type(e.op).__name__}")
        if ta == "N" or tb == "N":
            # dim_ used as a number
            a = f"(({a} : Nat) : α)" if ta == "N" else a
            b = f"(({b} : Nat) : α)" if tb == "N" else b
            ta = "S" if ta == "N" else ta
            tb = "S" if tb == "N" else tb
        if ta == "S" and tb == "S":
            return f"({a} {op} {b})", "S"
        if ta == "V" and tb == "V":
            return f"(List.zipWith (fun s t => s {op} t) {a} {b})", "V"
        if ta == "S" and tb == "V":
            return f"(List.map (fun t => {a} {op} t) {b})", "V"
        if ta == "V" and tb == "S":
            return f"(List.map (fun t => t {op} {b}) {a})", "V"
        raise Unsupported("binop types")
    if isinstance(e, ast.IfExp):
        cond = tr_cond(e.test, c)
        a, ta = tr_expr(e.body, c)
        b, tb = tr_expr(e.orelse, c)
        if ta != tb:
            raise Unsupported("if-expression branches of different type")
        return f"(if {cond} then {a} else {b})", ta
    if isinstance(e, ast.Subscript):
        base = e.value
        if isinstance(base, ast.Attribute) and base.attr in ("params", "cache"):
            # self.params["k"], self.base_module.params["k"], …: never the dictionary the caller handed in
            raise Unsupported(f"`{ast.unparse(e)}`: a kernel must read hyper-parameters / cache entries from its "
                              f"`{base.attr}` argument, not from `{ast.unparse(base)}`")
        if isinstance(base, ast.Name) and base.id == "params":
            k = e.slice.value if isinstance(e.slice, ast.Constant) else None
            if not isinstance(k, str):
                raise Unsupported("params subscript")
            _key(k)
            if k in VECTOR_PARAMS:
                if k not in c.vec_params:
                    c.vec_params.append(k)
                return lean_name(k), "V"
            if k not in c.params:
                c.params.append(k)
            return lean_name(k), "S"
        if isinstance(base, ast.Name) and base.id == "cache":
            k = e.slice.value if isinstance(e.slice, ast.Constant) else None
            if not isinstance(k, str):
                raise Unsupported("cache subscript")
            _key(k)
            if c.types.get("cache") == "C":
                raise Unsupported("cache read after the function's own `cache = {…}`")
            if k not in c.cache_in:
                c.cache_in.append(k)
            return "c_" + k, "S"
        v, tv = tr_expr(base, c)
        if tv != "V":
            raise Unsupported("subscript of a non-vector")
        s = e.slice
        if isinstance(s, ast.Slice):
            if s.step is not None:
                raise Unsupported("slice step")
            lo, hi = s.lower, s.upper
            if lo is None and hi is not None:
                if isinstance(hi, ast.UnaryOp) and isinstance(hi.op, ast.USub) and isinstance(hi.operand, ast.Constant) and hi.operand.value == 1:
                    return f"(List.dropLast {v})", "V"
                h, th = tr_expr(hi, c)
                if th != "N":
                    raise Unsupported("slice bound")
                return f"(List.take {h} {v})", "V"
            if lo is not None and hi is None:
                l_, tl = tr_expr(lo, c)
                if tl != "N":
                    raise Unsupported("slice bound")
                return f"(List.drop {l_} {v})", "V"
            if (lo is not None and isinstance(hi, ast.UnaryOp) and isinstance(hi.op, ast.USub)
                    and isinstance(hi.operand, ast.Constant) and hi.operand.value == 1):
                l_, tl = tr_expr(lo, c)
                if tl != "N":
                    raise Unsupported("slice bound")
                return f"(List.dropLast (List.drop {l_} {v}))", "V"
            if lo is not None and hi is not None:
                l_, tl = tr_expr(lo, c)
                h_, th = tr_expr(hi, c)
                if tl != "N" or th != "N":
                    raise Unsupported("slice bound")
                return f"(List.take ({h_} - {l_}) (List.drop {l_} {v}))", "V"
            raise Unsupported("slice form")
        if isinstance(s, ast.UnaryOp) and isinstance(s.op, ast.USub) and isinstance(s.operand, ast.Constant) and s.operand.value == 1:
            return f"(List.getLastD {v} 0)", "S"
        if isinstance(s, ast.UnaryOp) and isinstance(s.op, ast.USub) and isinstance(s.operand, ast.Constant) \
                and isinstance(s.operand.value, int) and s.operand.value > 1:
            return f"(List.getD {v} (List.length {v} - {s.operand.value}) 0)", "S"
        raise Unsupported("index form")
    if isinstance(e, ast.Attribute):
        if isinstance(e.value, ast.Name) and e.value.id == "self" and e.attr in ATTRS:
            if e.attr not in c.attrs:
                c.attrs.append(e.attr)
            if e.attr == "dim_":
                c.uses_dim = True
            if e.attr == "dim_original":
                c.uses_dim_original = True
            return c.attr_binder(e.attr), ATTRS[e.attr]
        raise Unsupported(f"attribute {ast.unparse(e)}")
    if isinstance(e, ast.List):
        parts = [tr_expr(t, c) for t in e.elts]
        if all(t == "S" for _, t in parts):
            return "[" + ", ".join(p for p, _ in parts) + "]", "V"
        raise Unsupported("list literal of non-scalars")
    if isinstance(e, ast.Call):
        f = ast.unparse(e.func)
        if f == "sum" and len(e.args) == 1 and isinstance(e.args[0], ast.GeneratorExp):
            g = e.args[0]
            if (len(g.generators) == 1 and not g.generators[0].ifs and isinstance(g.generators[0].target, ast.Name)
                    and ast.unparse(g.generators[0].iter) == "self.W"):
                vname = g.generators[0].target.id
                saved = c.types.get(vname)
                c.types[vname] = "V"
                el, tel = tr_expr(g.elt, c)
                if saved is None:
                    del c.types[vname]
                else:
                    c.types[vname] = saved
                if tel != "S":
                    raise Unsupported("sum over self.W of non-scalars")
                c.uses_allW = True
                return f"(Art.vsum (List.map (fun {vname}_ => {el}) allW))", "S"
            raise Unsupported("generator form")
        if f == "self.category_distance":
            return call_generated("category_distance", e, c)
        if f == "np.asarray" and len(e.args) == 1 and len(e.keywords) == 1 and ast.unparse(e.keywords[0]) == "dtype=float":
            # conversion of a numeric array to float64: the identity on exact numbers (the narrow-dtype overflow it
            # prevents is a float / integer matter the checks measure, not the proofs)
            return tr_expr(e.args[0], c)
        if f == "np.concatenate":
            args = []
        else:
            args = [tr_expr(a, c) for a in e.args]
        if e.keywords:
            raise Unsupported("keyword arguments in a kernel expression")

        def need(*tys):
            if [t for _, t in args] != list(tys):
                raise Unsupported(f"{f} argument types {[t for _, t in args]}")
        if f == "l1norm":
            need("V")
            return f"(Art.vsum (List.map (fun t => |t|) {args[0][0]}))", "S"
        if f in ("fuzzy_and", "np.minimum"):
            need("V", "V")
            return f"(Art.vmin {args[0][0]} {args[1][0]})", "V"
        if f == "np.sum":
            need("V")
            return f"(Art.vsum {args[0][0]})", "S"
        if f in ("np.dot", "np.matmul"):
            need("V", "V")
            return f"(Art.dot {args[0][0]} {args[1][0]})", "S"
        if f == "l2norm2":
            need("V")
            return f"(Art.dot {args[0][0]} {args[0][0]})", "S"
        if f == "np.sqrt":
            c.uses_sqrt = True
            if [t for _, t in args] == ["V"]:
                return f"(List.map sqrt {args[0][0]})", "V"
            need("S")
            return f"(sqrt {args[0][0]})", "S"
        if f == "np.exp":
            need("S")
            c.uses_exp = True
            return f"(exp {args[0][0]})", "S"
        if f == "np.multiply":
            need("V", "V")
            return f"(List.zipWith (fun s t => s * t) {args[0][0]} {args[1][0]})", "V"
        if f == "np.prod":
            need("V")
            return f"(Art.vprod {args[0][0]})", "S"
        if f == "float":
            need("S")
            return args[0][0], "S"
        if f in ("max", "min"):
            need("S", "S")
            return f"({f} {args[0][0]} {args[1][0]})", "S"
        if f == "np.copy":
            need("V")
            return args[0][0], "V"
        if f == "np.logical_and":
            need("V", "V")
            return f"(Art.band' {args[0][0]} {args[1][0]})", "V"
        if f == "np.concatenate":
            if len(e.args) != 1 or not isinstance(e.args[0], ast.List):
                raise Unsupported("np.concatenate form")
            parts = [tr_expr(t, c) for t in e.args[0].elts]
            if any(t != "V" for _, t in parts):
                raise Unsupported("np.concatenate of non-vectors")
            return "(" + " ++ ".join(p for p, _ in parts) + ")", "V"
        if f == "np.zeros_like":
            need("V")
            return f"(List.map (fun _ => (0 : α)) {args[0][0]})", "V"
        raise Unsupported(f"call {f}")
    raise Unsupported(f"expression {type(e).__name__}: {ast.unparse(e)}")


def call_generated(name: str, e: ast.Call, c: Ctx) -> tuple[str, str]:
    """`self.<name>(a, b, …, params)` where `<name>` of the same class is already translated: the generated definition
    applied to the translated positional arguments, every other binder passed by name (and required of the caller)"""
    if name not in c.ksigs:
        raise Unsupported(f"call of self.{name}: not translated (yet) in {c.cls}")
    pyparams, binders, rty = c.ksigs[name]
    if e.keywords or len(e.args) != len(pyparams) or any(isinstance(a, ast.Starred) for a in e.args):
        raise Unsupported(f"call of self.{name}: arguments do not match the parameters {pyparams}")
    pos = []
    for p, a in zip(pyparams, e.args):
        if p in ("params", "cache"):
            if not (isinstance(a, ast.Name) and a.id == p) or c.types.get(p) is not None:
                raise Unsupported(f"call of self.{name}: `{p}` must be the caller's own `{p}` argument, got `{ast.unparse(a)}`")
        elif p in VECTOR_ARGS:
            t, ty = tr_expr(a, c)
            if ty != "V":
                raise Unsupported(f"call of self.{name}: argument {p} is not a vector")
            pos.append(t)
        # any other parameter has no type in the callee: its body cannot read it (unknown name -> Unsupported)
    named = []
    for b, kind, _ in binders:
        if kind == "arg":
            continue
        if kind == "ext":
            if b == "sqrt":
                c.uses_sqrt = True
            elif b == "exp":
                c.uses_exp = True
            elif b == "allW":
                c.uses_allW = True
            else:
                raise Unsupported(f"external binder {b}")
        elif kind == "attr":
            a = b[2:]
            if b != c.attr_binder(a):
                raise Unsupported(f"binder {b}")
            if a not in c.attrs:
                c.attrs.append(a)
        elif kind == "param":
            if b[2:] not in c.params:
                c.params.append(b[2:])
        elif kind == "vparam":
            if b[2:] not in c.vec_params:
                c.vec_params.append(b[2:])
        elif kind == "cache":
            if b[2:] not in c.cache_in:
                c.cache_in.append(b[2:])
        else:
            raise Unsupported(f"binder kind {kind}")
        named.append(f"({b} := {b})")
    return "(" + " ".join([name] + named + pos) + ")", rty


def tr_cond(e: ast.AST, c: Ctx) -> str:
    if isinstance(e, ast.Compare) and len(e.ops) == 1:
        a, ta = tr_expr(e.left, c)
        b, tb = tr_expr(e.comparators[0], c)
        if ta != "S" or tb != "S":
            raise Unsupported("comparison of non-scalars")
        op = {ast.Lt: "<", ast.LtE: "≤", ast.Gt: ">", ast.GtE: "≥", ast.Eq: "=", ast.NotEq: "≠"}.get(type(e.ops[0]))
        if op is None:
            raise Unsupported("comparison operator")
        return f"{a} {op} {b}"
    if isinstance(e, ast.UnaryOp) and isinstance(e.op, ast.Not):
        return f"¬ ({tr_cond(e.operand, c)})"
    if isinstance(e, ast.BoolOp) and isinstance(e.op, ast.And):
        return " ∧ ".join(f"({tr_cond(v, c)})" for v in e.values)
    if (isinstance(e, ast.Call) and isinstance(e.func, ast.Attribute) and e.func.attr == "any" and not e.args):
        v, tv = tr_expr(e.func.value, c)
        if tv != "V":
            raise Unsupported(".any() of a non-vector")
        return f"(List.any {v} (fun t => t != 0)) = true"
    raise Unsupported(f"condition {ast.unparse(e)}")


def is_none_test(e: ast.AST) -> bool:
    return (isinstance(e, ast.Compare) and len(e.ops) == 1 and isinstance(e.ops[0], ast.Is)
            and isinstance(e.comparators[0], ast.Constant) and e.comparators[0].value is None)


def tr_block(stmts: list[ast.stmt], c: Ctx) -> tuple[str, str]:
    """translate a statement list that ends in `return`; returns (lean term, type of the returned value)"""
    if not stmts:
        raise Unsupported("block without return")
    s, rest = stmts[0], stmts[1:]
    if isinstance(s, ast.Expr) and isinstance(s.value, ast.Constant) and isinstance(s.value.value, str):
        return tr_block(rest, c)          # docstring
    if isinstance(s, ast.If) and is_none_test(s.test):
        return tr_block(rest, c)          # `if cache is None: raise …` / `if b is None: return …`: outside the contract
    if isinstance(s, ast.Assign):
        if len(s.targets) != 1 or not isinstance(s.targets[0], ast.Name):
            raise Unsupported("assignment target")
        name = s.targets[0].id
        if name == "cache" and isinstance(s.value, ast.Dict):
            for k, v in zip(s.value.keys, s.value.values):
                if not isinstance(k, ast.Constant):
                    raise Unsupported("cache key")
                c.cache_out[k.value] = tr_expr(v, c)
            c.types["cache"] = "C"
            return tr_block(rest, c)
        if name in ("params", "self") or name in c.args:
            raise Unsupported(f"re-binding of the argument {name}")
        v, tv = tr_expr(s.value, c)
        c.types[name] = tv
        c.assigned.add(name)
        body, tb = tr_block(rest, c)
        return f"let {name}_ := {v}\n  {body}", tb
    if isinstance(s, ast.Return):
        v = s.value
        if isinstance(v, ast.Tuple):
            v = v.elts[0]                 # (value, cache)
        return tr_expr(v, c)
    if isinstance(s, ast.If):
        cond = tr_cond(s.test, c)
        saved = dict(c.types)
        if s.body and isinstance(s.body[-1], ast.Return):
            a, ta = tr_block(s.body, c)
            c.types = dict(saved)
            b, tb = tr_block((s.orelse or []) + rest, c)
            if ta != tb:
                raise Unsupported("if branches return different types")
            return f"if {cond} then\n    {a}\n  else\n    {b}", ta
        # both branches assign the same single name
        if (len(s.body) == 1 and len(s.orelse) == 1 and isinstance(s.body[0], ast.Assign) and isinstance(s.orelse[0], ast.Assign)
                and ast.unparse(s.body[0].targets[0]) == ast.unparse(s.orelse[0].targets[0])):
            if not isinstance(s.body[0].targets[0], ast.Name):
                raise Unsupported("assignment target")
            name = s.body[0].targets[0].id
            if name in ("params", "self", "cache") or name in c.args:
                raise Unsupported(f"re-binding of the argument {name}")
            c.assigned.add(name)
            a, ta = tr_expr(s.body[0].value, c)
            b, tb = tr_expr(s.orelse[0].value, c)
            if ta != tb:
                raise Unsupported("if branches assign different types")
            c.types[name] = ta
            body, tb2 = tr_block(rest, c)
            return f"let {name}_ := if {cond} then {a} else {b}\n  {body}", tb2
        raise Unsupported("if form")
    raise Unsupported(f"statement {type(s).__name__}: {ast.unparse(s)[:60]}")


def translate_function(cls: str, fn: str, f: ast.FunctionDef, ksigs: dict = None) -> str:
    """`ksigs` collects the signatures of the functions of the class translated so far (callee before caller)"""
    ksigs = {} if ksigs is None else ksigs
    c = KCtx(cls, fn, ksigs)
    if f.args.vararg or f.args.kwarg or f.args.kwonlyargs or f.args.posonlyargs:
        raise Unsupported(f"{cls}.{fn}: parameter list")
    vec_args = []
    pyparams = [a.arg for a in f.args.args if a.arg != "self"]
    for a in pyparams:
        if a in VECTOR_ARGS:
            c.types[a] = "V"
            vec_args.append(a)
            c.args.append(a)
    body, ty = tr_block(f.body, c)
    # binders: (name, kind, Lean type).  Key-derived binders are sorted by key — their order carries no meaning, the
    # spec passes them by name; only the Python positional parameters (kind "arg") are positional, in signature order.
    binders = []
    if c.uses_sqrt:
        binders.append(("sqrt", "ext", "α → α"))
    if c.uses_exp:
        binders.append(("exp", "ext", "α → α"))
    if c.uses_allW:
        binders.append(("allW", "ext", "List (List α)"))
    binders += [(c.attr_binder(a), "attr", "Nat") for a in sorted(c.attrs)]
    binders += [(lean_name(k), "vparam" if k in c.vec_params else "param", "List α" if k in c.vec_params else "α")
                for k in sorted(c.params + c.vec_params)]
    binders += [("c_" + k, "cache", "α") for k in sorted(c.cache_in)]
    binders += [(a + "_", "arg", "List α") for a in vec_args]
    names = [b for b, _, _ in binders]
    rendered_locals = {n + "_" for n in c.assigned | set(vec_args)}
    if len(set(names)) != len(names) or rendered_locals & {b for b, k, _ in binders if k != "arg"}:
        raise Unsupported(f"{cls}.{fn}: a binder name clashes with another binder or with a local variable")
    ksigs[fn] = (pyparams, binders, ty)
    rty = "α" if ty == "S" else "List α"
    sig = " ".join(f"({b} : {t})" for b, _, t in binders)
    out = [f"/-- generated from `{cls}.{fn}`; arguments: {sig} -/",
           f"def {fn} {sig} : {rty} :=\n  {body}\n"]
    for k, (expr, t) in c.cache_out.items():
        # cache entries are expressions over the same locals: re-emit the lets by translating again is
        # unnecessary — emit as a definition that repeats the let-prefix of the body
        prefix = body.rsplit("\n", 1)[0] if "\n" in body else ""
        lets = "\n  ".join(l for l in prefix.split("\n  ") if l.startswith("let ")) if prefix else ""
        out.append(f"/-- cache entry `{k}` written by `{cls}.{fn}` -/\n"
                   f"def {fn}_cache_{k} {sig} : {'α' if t == 'S' else 'List α'} :=\n  " + (lets + "\n  " if lets else "") + expr + "\n")
    return "\n".join(out)



# ------------------------------------------------------------------ decision logic (match tracking, veto)

MODE_CTOR = {"MT+": ".plus", "MT-": ".minus", "MT0": ".zero", "MT1": ".one", "MT~": ".tilde"}
TRACK_SITES = {   # class -> file; each has its own copy of `_match_tracking`
    "BaseART": "artlib/common/BaseART.py",
    "BayesianART": "artlib/elementary/BayesianART.py",
    "DualVigilanceART": "artlib/topological/DualVigilanceART.py",
    "TopoART": "artlib/topological/TopoART.py",
    "CVIART": "artlib/cvi/CVIART.py",
}


def _method_eq(test: ast.AST) -> str:
    if (isinstance(test, ast.Compare) and len(test.ops) == 1 and isinstance(test.ops[0], ast.Eq)
            and isinstance(test.left, ast.Name) and test.left.id == "method"
            and isinstance(test.comparators[0], ast.Constant) and test.comparators[0].value in MODE_CTOR):
        return test.comparators[0].value
    raise Unsupported(f"match-tracking test {ast.unparse(test)}")


def _track_expr(e: ast.AST) -> str:
    """expression over M, epsilon, np.inf"""
    if isinstance(e, ast.Name) and e.id in ("M", "epsilon"):
        return e.id
    if isinstance(e, ast.Attribute) and ast.unparse(e) == "np.inf":
        return "inf"
    if isinstance(e, ast.UnaryOp) and isinstance(e.op, ast.USub):
        return f"(-{_track_expr(e.operand)})"
    if isinstance(e, ast.BinOp) and isinstance(e.op, (ast.Add, ast.Sub)):
        op = "+" if isinstance(e.op, ast.Add) else "-"
        return f"({_track_expr(e.left)} {op} {_track_expr(e.right)})"
    raise Unsupported(f"match-tracking value {ast.unparse(e)}")


def translate_match_tracking(cls: str, f: ast.FunctionDef) -> str:
    """`_match_tracking(cache, epsilon, params, method)`: per mode, the new vigilance and keep-searching flag"""
    stmts = [s for s in f.body if not (isinstance(s, ast.Expr) and isinstance(s.value, ast.Constant)) and not isinstance(s, ast.Assert)]
    if not (stmts and isinstance(stmts[0], ast.Assign) and ast.unparse(stmts[0]) == "M = cache['match_criterion']"):
        raise Unsupported(f"{cls}._match_tracking: expected `M = cache['match_criterion']`")
    if len(stmts) != 2 or not isinstance(stmts[1], ast.If):
        raise Unsupported(f"{cls}._match_tracking: expected one if/elif chain")
    arms = {}
    node = stmts[1]
    while True:
        mode = _method_eq(node.test)
        body = node.body
        new_rho = "rho"
        if len(body) == 2 and isinstance(body[0], ast.Assign):
            tgt = ast.unparse(body[0].targets[0])
            if tgt not in ("self.params['rho']", "self.base_module.params['rho']"):
                raise Unsupported(f"{cls}._match_tracking assigns {tgt}")
            new_rho = _track_expr(body[0].value)
            body = body[1:]
        if not (len(body) == 1 and isinstance(body[0], ast.Return) and isinstance(body[0].value, ast.Constant)
                and isinstance(body[0].value.value, bool)):
            raise Unsupported(f"{cls}._match_tracking arm {mode}")
        if mode in arms:
            raise Unsupported(f"{cls}._match_tracking: duplicate arm {mode}")
        arms[mode] = (new_rho, "true" if body[0].value.value else "false")
        if len(node.orelse) == 1 and isinstance(node.orelse[0], ast.If):
            node = node.orelse[0]
            continue
        if not (len(node.orelse) == 1 and isinstance(node.orelse[0], ast.Raise)):
            raise Unsupported(f"{cls}._match_tracking: final else must raise")
        break
    if set(arms) != set(MODE_CTOR):
        raise Unsupported(f"{cls}._match_tracking: modes {sorted(arms)}")
    lines = [f"/-- generated from `{cls}._match_tracking`: (vigilance after a vetoed match, keep searching?) -/",
             "def match_tracking (inf : α) (method : Art.MT) (M epsilon rho : α) : α × Bool :=",
             "  match method with"]
    for mode, ctor in MODE_CTOR.items():
        lines.append(f"  | {ctor} => ({arms[mode][0]}, {arms[mode][1]})")
    return "\n".join(lines) + "\n"


def translate_operator(f: ast.FunctionDef) -> str:
    """`_match_tracking_operator(method)`: strict (`gt`) or not (`ge`)"""
    stmts = [s for s in f.body if not (isinstance(s, ast.Expr) and isinstance(s.value, ast.Constant))]
    if len(stmts) != 1 or not isinstance(stmts[0], ast.If):
        raise Unsupported("_match_tracking_operator: expected one if/elif chain")
    strict = {}
    node = stmts[0]
    while True:
        t = node.test
        if not (isinstance(t, ast.Compare) and len(t.ops) == 1 and isinstance(t.ops[0], ast.In) and isinstance(t.left, ast.Name)
                and t.left.id == "method" and isinstance(t.comparators[0], ast.List)):
            raise Unsupported("_match_tracking_operator test")
        if not (len(node.body) == 1 and isinstance(node.body[0], ast.Return)):
            raise Unsupported("_match_tracking_operator arm")
        op = ast.unparse(node.body[0].value)
        if op not in ("operator.ge", "operator.gt"):
            raise Unsupported(f"_match_tracking_operator returns {op}")
        for el in t.comparators[0].elts:
            if not (isinstance(el, ast.Constant) and el.value in MODE_CTOR) or el.value in strict:
                raise Unsupported("_match_tracking_operator mode list")
            strict[el.value] = "true" if op == "operator.gt" else "false"
        if len(node.orelse) == 1 and isinstance(node.orelse[0], ast.If):
            node = node.orelse[0]
            continue
        break
    if set(strict) != set(MODE_CTOR):
        raise Unsupported(f"_match_tracking_operator: modes {sorted(strict)}")
    lines = ["/-- generated from `BaseART._match_tracking_operator`: is the comparison strict (`operator.gt`)? -/",
             "def strict (method : Art.MT) : Bool :=", "  match method with"]
    for mode, ctor in MODE_CTOR.items():
        lines.append(f"  | {ctor} => {strict[mode]}")
    return "\n".join(lines) + "\n"


def translate_match_bin(cls: str, f: ast.FunctionDef) -> str:
    """`match_criterion_bin`: which way round the operator is applied"""
    for s in f.body:
        if isinstance(s, ast.Assign) and ast.unparse(s.targets[0]) == "M_bin":
            v = ast.unparse(s.value)
            if v == "op(M, params['rho'])":
                return (f"/-- generated from `{cls}.match_criterion_bin`: `op(M, rho)` -/\n"
                        "def match_bin (op : α → α → Bool) (M rho : α) : Bool := op M rho\n")
            if v == "op(params['rho'], M)":
                return (f"/-- generated from `{cls}.match_criterion_bin`: `op(rho, M)` (inverted vigilance) -/\n"
                        "def match_bin (op : α → α → Bool) (M rho : α) : Bool := op rho M\n")
            raise Unsupported(f"{cls}.match_criterion_bin: M_bin = {v}")
    raise Unsupported(f"{cls}.match_criterion_bin: no M_bin assignment")


def translate_reset(f: ast.FunctionDef) -> str:
    """`SimpleARTMAP.match_reset_func`: allowed unless the category is mapped to another class"""
    stmts = [s for s in f.body if not (isinstance(s, ast.Expr) and isinstance(s.value, ast.Constant))]
    want = ["cluster_b = extra['cluster_b']",
            "if cluster_a in self.map and self.map[cluster_a] != cluster_b:\n    return False",
            "return True"]
    got = [ast.unparse(s) for s in stmts]
    if got != want:
        raise Unsupported("SimpleARTMAP.match_reset_func has an unexpected shape: " + " ; ".join(got)[:200])
    return ("/-- generated from `SimpleARTMAP.match_reset_func` (True = the category may be used) -/\n"
            "def match_reset (map : Nat → Option Nat) (cluster_a cluster_b : Nat) : Bool :=\n"
            "  if (map cluster_a).isSome ∧ map cluster_a ≠ some cluster_b then false else true\n")


def generate_logic(repo: Path) -> str:
    out = []
    for cls, rel in TRACK_SITES.items():
        tree = ast.parse((repo / rel).read_text())
        out += [f"namespace {cls}", "", "variable {α : Type} [Field α] [LinearOrder α] [IsStrictOrderedRing α]", ""]
        out.append(translate_match_tracking(cls, find_function(tree, cls, "_match_tracking")))
        if cls == "BaseART":
            out.append(translate_operator(find_function(tree, cls, "_match_tracking_operator")))
        if cls in ("BaseART", "BayesianART"):
            out.append(translate_match_bin(cls, find_function(tree, cls, "match_criterion_bin")))
        out += [f"end {cls}", ""]
    tree = ast.parse((repo / "artlib/supervised/SimpleARTMAP.py").read_text())
    out += ["namespace SimpleARTMAP", "", translate_reset(find_function(tree, "SimpleARTMAP", "match_reset_func")), "end SimpleARTMAP", ""]
    return "\n".join(out)


def generate(repo: Path) -> str:
    chunks = ["/-",
              "GENERATED by harness/artv/ktrans.py from the Python sources of artlib — do not edit.",
              "Regenerated on every run of the C03 check; `ArtGenProofs/GenSpec.lean` proves each definition equal",
              "to the published rule in `ArtModel/Kernels.lean` for all arguments.",
              "-/",
              "import Mathlib.Algebra.Order.Field.Basic",
              "import Mathlib.Algebra.Order.AbsoluteValue.Basic" if False else "import Mathlib.Algebra.Order.Ring.Abs",
              "import ArtModel.Kernels",
              "",
              "set_option linter.unusedVariables false",
              "",
              "namespace Art.Gen",
              ""]
    for cls, rel in FILES.items():
        src = (repo / rel).read_text()
        tree = ast.parse(src)
        chunks += [f"namespace {cls}", "", "variable {α : Type} [Field α] [LinearOrder α] [IsStrictOrderedRing α]", ""]
        ksigs: dict = {}
        for fn in EXTRA.get(cls, []) + FUNCS:
            f = find_function(tree, cls, fn)
            chunks.append(translate_function(cls, fn, f, ksigs))
        chunks += [f"end {cls}", ""]
    chunks.append(generate_logic(repo))
    chunks += ["end Art.Gen", ""]
    return "\n".join(chunks)


def write(repo: Path = None) -> tuple[bool, str]:
    """regenerate lean/ArtGen/Kernels.lean; returns (ok, message).  On failure the file is replaced by a stub
    that does not define the kernels, so the proof obligations break."""
    repo = Path(repo or os.environ.get("VERIF_REPO", "/repo"))
    out = VERIF / "lean" / "ArtGen" / "Kernels.lean"
    out.parent.mkdir(exist_ok=True)
    try:
        text = generate(repo)
        ok, msg = True, "generated"
    except (Unsupported, SyntaxError, OSError) as e:
        text = f"/- GENERATION FAILED: {e} -/\nnamespace Art.Gen\nend Art.Gen\n"
        ok, msg = False, f"translator failed closed: {e}"
    if not out.exists() or out.read_text() != text:
        out.write_text(text)
    return ok, msg


if __name__ == "__main__":
    ok, msg = write(Path(sys.argv[1]) if len(sys.argv) > 1 else None)
    print(msg)
    print((VERIF / "lean" / "ArtGen" / "Kernels.lean").read_text())
    sys.exit(0 if ok else 1)
