"""Check orchestration: build, static audit, correspondence + oracle, verdict, evidence."""
from __future__ import annotations

import importlib
import json
import os
import re
import subprocess
import sys
import time
import traceback
from pathlib import Path

VERIF_DIR = __import__("pathlib").Path(__file__).resolve().parents[2]
from .common import (VERIF, LEAN_DIR, ARTDRV, REPO, Issue, Coverage, load_known, known_match,
                     write_replay, jsonable)

ALLOWED_AXIOMS = {"propext", "Classical.choice", "Quot.sound"}
FORBIDDEN = re.compile(r"\b(sorry|admit|native_decide|bv_decide|implemented_by)\b|^\s*axiom\s|unsafe\s|maxHeartbeats\s+0")


def lake_build(log: list[str]) -> bool:
    t = time.time()
    p = subprocess.run(["lake", "build", "ArtModel", "ArtProofs", "ArtProps", "artdrv"],
                       cwd=LEAN_DIR, capture_output=True, text=True)
    log.append(f"lake build: rc={p.returncode} {time.time() - t:.1f}s")
    if p.returncode != 0:
        log.append((p.stdout + p.stderr)[-3000:])
    return p.returncode == 0 and ARTDRV.exists()


def strip_comments(src: str) -> str:
    # remove /- ... -/ (nested-insensitive, good enough for our files) and -- comments
    out, i, depth = [], 0, 0
    while i < len(src):
        if src.startswith("/-", i):
            depth += 1
            i += 2
        elif src.startswith("-/", i) and depth > 0:
            depth -= 1
            i += 2
        elif depth > 0:
            if src[i] == "\n":
                out.append("\n")
            i += 1
        elif src.startswith("--", i):
            while i < len(src) and src[i] != "\n":
                i += 1
        else:
            out.append(src[i])
            i += 1
    return "".join(out)


def grep_forbidden() -> list[str]:
    hits = []
    for p in sorted(LEAN_DIR.rglob("*.lean")):
        if ".lake" in p.parts or p.name.startswith(".audit_"):
            continue            # (.audit_*: the temporary `#print axioms` files of concurrently running checks)
        try:
            body = strip_comments(p.read_text())
        except FileNotFoundError:
            continue
        for n, line in enumerate(body.split("\n"), 1):
            if FORBIDDEN.search(line):
                hits.append(f"{p.relative_to(LEAN_DIR)}:{n}: {line.strip()[:100]}")
    return hits


def obligations_for(prop: str) -> list[str]:
    f = LEAN_DIR / "obligations" / f"{prop}.txt"
    if not f.exists():
        return []
    return [l.strip() for l in f.read_text().split("\n") if l.strip() and not l.startswith("#")]


# properties quantified over training histories of the clustering estimators (fit_gif is one more training call)
FITGIF_PROPS = {"C01", "C02", "C04", "C05", "C06", "C07", "C13", "C14"}


def audit(prop: str, log: list[str]) -> dict:
    """#print axioms for every theorem the property file promises."""
    names = obligations_for(prop)
    res = {"obligations": len(names), "discharged": 0, "axioms": {}, "failed": [], "forbidden": []}
    res["forbidden"] = grep_forbidden()
    # the inheritance structure the models and the translated code silently assume (tools/class_surface.py)
    try:
        import importlib.util
        spec_ = importlib.util.spec_from_file_location("class_surface", str(VERIF_DIR / "tools" / "class_surface.py"))
        cs = importlib.util.module_from_spec(spec_)
        spec_.loader.exec_module(cs)
        snap = json.loads(cs.SNAPSHOT.read_text())
        for d in cs.diff(snap, cs.surface(REPO)):
            res["failed"].append("class-surface: " + d)
        log.append("class surface (which class overrides which inherited method) compared with lean/obligations/class_surface.json")
    except Exception as e:      # noqa
        res["failed"].append(f"class-surface: could not be computed ({e!r})")
    # plotting functions are assumed read-only by every theorem about a history that contains one (tools/plot_purity.py)
    try:
        import importlib.util
        spec_ = importlib.util.spec_from_file_location("plot_purity", str(VERIF_DIR / "tools" / "plot_purity.py"))
        pp = importlib.util.module_from_spec(spec_)
        spec_.loader.exec_module(pp)
        for d in pp.diff(json.loads(pp.SNAPSHOT.read_text()), pp.surface(REPO)):
            res["failed"].append("plot-purity: " + d)
        log.append("plotting code (visualize, plot_*): state-escaping statements compared with lean/obligations/plot_purity.json")
    except Exception as e:      # noqa
        res["failed"].append(f"plot-purity: could not be computed ({e!r})")
    # fit_gif repeats fit's training loop between drawing statements (tools/fitgif_skeleton.py): the properties that
    # speak about training histories rely on the two loops being the same
    if prop in FITGIF_PROPS:
        try:
            import importlib.util
            spec_ = importlib.util.spec_from_file_location("fitgif_skeleton", str(VERIF_DIR / "tools" / "fitgif_skeleton.py"))
            fg = importlib.util.module_from_spec(spec_)
            spec_.loader.exec_module(fg)
            d = fg.diff(REPO)
            if d:
                res["failed"].append("fit_gif-skeleton: BaseART.fit_gif without its drawing statements is no longer fit's training code: "
                                     + " | ".join(d))
            log.append("fit_gif skeleton (fit_gif minus drawing statements = fit, same AST) checked")
        except Exception as e:      # noqa
            res["failed"].append(f"fit_gif-skeleton: could not be computed ({e!r})")
    if not names:
        res["failed"].append("no obligations registered")
        return res
    src = f"import ArtProps.{prop}\n" + "\n".join(f"#print axioms {n}" for n in names) + "\n"
    tmp = LEAN_DIR / f".audit_{prop}_{os.getpid()}.lean"
    tmp.write_text(src)
    try:
        p = subprocess.run(["lake", "env", "lean", str(tmp.name)], cwd=LEAN_DIR, capture_output=True, text=True)
    finally:
        tmp.unlink(missing_ok=True)
    out = p.stdout + p.stderr
    # output blocks: "'Name' depends on axioms: [a, b]" or "'Name' does not depend on any axioms"
    flat = re.sub(r"\s+", " ", out)
    for n in names:
        m = re.search(r"'" + re.escape(n) + r"' (does not depend on any axioms|depends on axioms: \[([^\]]*)\])", flat)
        if not m:
            res["failed"].append(f"{n}: not checked ({'error' if p.returncode else 'missing'})")
            continue
        ax = [] if m.group(2) is None else [a.strip() for a in m.group(2).split(",") if a.strip()]
        res["axioms"][n] = ax
        bad = [a for a in ax if a not in ALLOWED_AXIOMS]
        if bad:
            res["failed"].append(f"{n}: axioms {bad}")
        else:
            res["discharged"] += 1
    if p.returncode != 0:
        log.append("audit lean rc=%d: %s" % (p.returncode, out[-1500:]))
    return res


def leanchecker(prop: str, log: list[str]) -> bool:
    p = subprocess.run(["lake", "env", "leanchecker", f"ArtProps.{prop}"], cwd=LEAN_DIR,
                       capture_output=True, text=True)
    log.append(f"leanchecker ArtProps.{prop}: rc={p.returncode}")
    if p.returncode != 0:
        log.append((p.stdout + p.stderr)[-1500:])
    return p.returncode == 0


class Ctx:
    def __init__(self, prop: str, tier: str, seed: int):
        self.prop, self.tier, self.seed = prop, tier, seed
        self.issues: list[Issue] = []
        self.cov = Coverage()
        self.log: list[str] = []
        self.assumptions: list[str] = []
        self.trusted: list[str] = []
        self.thorough = tier == "thorough"
        # proof obligations a check discharges itself (e.g. C03's generated-kernel equalities)
        self.extra_audit = {"obligations": 0, "discharged": 0, "axioms": {}}

    def scale(self, quick: int, thorough: int) -> int:
        return thorough if self.thorough else quick

    def issue(self, kind, signature, what, replay=None):
        # keep at most a handful per signature
        same = [i for i in self.issues if i.signature == signature and i.kind == kind]
        if len(same) < 3:
            self.issues.append(Issue(kind, self.prop, signature, what, replay))
        self.cov.hit(f"issue:{kind}:{signature}")


def git_state() -> str:
    try:
        h = subprocess.run(["git", "-C", str(REPO), "rev-parse", "--short", "HEAD"], capture_output=True, text=True).stdout.strip()
        d = subprocess.run(["git", "-C", str(REPO), "status", "--porcelain", "--untracked-files=no"], capture_output=True, text=True).stdout.strip()
        return h + ("+dirty" if d else "")
    except Exception:
        return "unknown"


class ImplementationHang(Exception):
    """one call into artlib has been running longer than the watchdog interval"""


def _watchdog_mark(*_a):  # sentinel stored in frame.f_trace; never called (no sys.settrace)
    return None


def install_watchdog(seconds: float):
    """A changed implementation can loop forever (e.g. a search that never resets a category).  Every `seconds` the
    SIGALRM handler looks for the outermost stack frame that executes code of $VERIF_REPO/artlib (= the call by which
    the harness entered the implementation); it marks that frame, and when it finds the mark already there — the very
    same call was running one interval ago — it raises ImplementationHang inside it.  The checks see an exception
    raised by the implementation and report it (never exit 2 / never hang).  On the unchanged tree no single call
    takes anywhere near the interval."""
    import signal
    root = str(Path(REPO).resolve()) + "/artlib"

    def handler(_sig, frame):
        entry, f = None, frame
        while f is not None:
            if f.f_code.co_filename.startswith(root):
                entry = f
            f = f.f_back
        if entry is None:
            return
        if entry.f_trace is _watchdog_mark:
            entry.f_trace = None
            raise ImplementationHang(f"{entry.f_code.co_name} ({Path(entry.f_code.co_filename).name}) has been running "
                                     f"for more than {seconds:g} s; the unchanged implementation needs milliseconds")
        entry.f_trace = _watchdog_mark

    signal.signal(signal.SIGALRM, handler)
    signal.setitimer(signal.ITIMER_REAL, seconds, seconds)


def main(argv=None) -> int:
    try:
        return _main(argv)
    finally:
        # disarm the watchdog's interval timer: a tick during interpreter teardown (handlers already gone) kills the process
        try:
            import signal as _s
            _s.setitimer(_s.ITIMER_REAL, 0)
            _s.signal(_s.SIGALRM, _s.SIG_IGN)
        except Exception:
            pass


def _main(argv=None) -> int:
    import argparse
    ap = argparse.ArgumentParser()
    ap.add_argument("prop")
    ap.add_argument("--tier", default=os.environ.get("VERIF_TIER", "quick"), choices=["quick", "thorough"])
    ap.add_argument("--seed", type=int, default=int(os.environ.get("VERIF_SEED", "0")))
    ap.add_argument("--replay", default=None)
    ap.add_argument("--no-build", action="store_true")
    a = ap.parse_args(argv)
    # never leave SIGALRM at its default action (terminate): time limits used by the checks save and restore "the old
    # handler", and a timer tick that lands between two of them must be harmless
    import signal as _signal
    _signal.signal(_signal.SIGALRM, lambda *_: None)
    prop = a.prop
    t0 = time.time()
    ctx = Ctx(prop, a.tier, a.seed)
    log = ctx.log
    print(f"[{prop}] tier={a.tier} seed={a.seed} repo={REPO} ({git_state()})")

    build_ok = True if a.no_build else lake_build(log)
    aud = {"obligations": 0, "discharged": 0, "axioms": {}, "failed": ["build failed"], "forbidden": []}
    if build_ok:
        aud = audit(prop, log)
        if ctx.thorough and not aud["failed"]:
            if not leanchecker(prop, log):
                aud["failed"].append("leanchecker rejected ArtProps." + prop)
    for f in aud["failed"]:
        ctx.issue("audit", "obligation:" + f.split(":")[0], f)
    for f in aud["forbidden"]:
        ctx.issue("audit", "forbidden-token", f)

    mod = importlib.import_module(f"artv.checks.{prop}")
    install_watchdog(float(os.environ.get("VERIF_CALL_TIMEOUT", "60" if ctx.thorough else "30")))
    if build_ok and hasattr(mod, "prepare") and not a.replay:
        try:
            mod.prepare(ctx)
        except Exception as e:
            traceback.print_exc()
            print(f"[{prop}] INTERNAL ERROR in check machinery (prepare): {e!r}")
            return 2
    if a.replay:
        rc = mod.replay(ctx, json.loads(Path(a.replay).read_text())) if hasattr(mod, "replay") else 0
    elif build_ok:
        try:
            mod.run(ctx)
        except Exception as e:
            traceback.print_exc()
            tb = traceback.extract_tb(e.__traceback__)
            inner = tb[-1] if tb else None
            if inner is not None and str(Path(inner.filename).resolve()).startswith(str(Path(REPO).resolve()) + "/artlib"):
                # raised INSIDE the implementation by a call the check does not expect to fail (on the unchanged tree
                # it does not): the check cannot complete; reported like a broken correspondence, with the traceback
                ctx.issue("diff", f"implementation-raised:{type(e).__name__}@{Path(inner.filename).name}:{inner.name}",
                          f"{e!r} raised in {inner.filename}:{inner.lineno} ({inner.name}) during the check; the check stopped here",
                          {"traceback": traceback.format_exception(type(e), e, e.__traceback__)[-12:]})
            else:
                # the machinery itself stopped while digesting what the implementation returned (a result of an unexpected
                # shape or type: on the unchanged tree, seeds 0..9 of both tiers, it does not): the run is incomplete, so the
                # property is not shown to hold — reported like a broken correspondence (no-failing-input-found), with the
                # traceback as the replay; VERIF_STRICT_INTERNAL=1 restores the old behaviour (exit 2) for debugging
                print(f"[{prop}] INTERNAL ERROR in check machinery: {e!r}")
                if os.environ.get("VERIF_STRICT_INTERNAL") == "1":
                    return 2
                ctx.issue("diff", f"check-stopped:{type(e).__name__}@{Path(inner.filename).name if inner else '?'}:{inner.name if inner else '?'}",
                          f"{e!r} raised in the check's own code at {inner.filename if inner else '?'}:{inner.lineno if inner else '?'} while "
                          f"processing the implementation's results; the check stopped here",
                          {"traceback": traceback.format_exception(type(e), e, e.__traceback__)[-12:]})

    # ---------------- verdict
    known = load_known()
    violations, knowns = [], []
    for i in ctx.issues:
        k = known_match(i, known) if i.kind == "violation" else None
        if k:
            knowns.append((i, k))
        else:
            violations.append(i)
    seen = set()
    for i, k in knowns:
        if k["id"] in seen:
            continue
        seen.add(k["id"])
        print(f"KNOWN-FINDING: property={prop} {k['id']} {k['what']}")
    # a diff/audit issue without a concrete violation of the same run => no-failing-input-found
    concrete = [i for i in violations if i.kind == "violation"]
    broken = [i for i in violations if i.kind in ("diff", "audit")]
    rc = 0
    lines = []
    for i in concrete[:5]:
        path = write_replay(prop, "fail", {"property": prop, "kind": i.kind, "signature": i.signature,
                                          "what": i.what, "replay": i.replay})
        lines.append(f"VIOLATION property={prop} replay={path}")
    if broken and not concrete:
        i = broken[0]
        path = write_replay(prop, "unproved", {"property": prop, "kind": i.kind, "signature": i.signature,
                                              "what": i.what, "no_longer_checks": [b.signature + ": " + b.what for b in broken[:10]],
                                              "replay": i.replay})
        lines.append(f"VIOLATION property={prop} replay={path} no-failing-input-found")
    elif broken:
        for b in broken[:3]:
            log.append(f"also broken: {b.kind} {b.signature}: {b.what[:200]}")
    if lines:
        rc = 1
    wall = time.time() - t0
    # ---------------- evidence
    ob, di = aud["obligations"] + ctx.extra_audit["obligations"], aud["discharged"] + ctx.extra_audit["discharged"]
    aud["axioms"] = dict(aud["axioms"], **ctx.extra_audit["axioms"])
    ev = {
        "property_id": prop, "tier": a.tier, "seed": a.seed, "level": "proof",
        "coverage": {
            "obligations": ob, "discharged": di,
            "checker_cmd": f"cd lean && lake build ArtProps && lake env lean <#print axioms of ArtProps.{prop} theorems>"
                           + ("; lake env leanchecker ArtProps." + prop if ctx.thorough else ""),
            "trusted_base": ["Lean 4.33 kernel", "Mathlib v4.33 (compiled)", "axioms ⊆ {propext, Classical.choice, Quot.sound}",
                             "correspondence harness (harness/artv) ties the hand-written model to /repo by differential runs"] + ctx.trusted,
            "theorems": aud["axioms"],
            "evaluations": ctx.cov.evaluations,
            "distinct_nontrivial": len(ctx.cov.distinct),
            "traces_validated_against_impl": ctx.cov.traces,
            "rule": getattr(mod, "RULE", ""),
            "branches": ctx.cov.branches,
            "samples": ctx.cov.samples or [{"note": "no samples recorded"}],
            "repo": git_state(),
        },
        "assumptions": ctx.assumptions,
        "wall_s": round(wall, 2),
        "violations": len(lines),
    }
    (VERIF / "evidence").mkdir(exist_ok=True)
    if str(REPO) == "/repo":
        (VERIF / "evidence" / f"{prop}.json").write_text(json.dumps(jsonable(ev), indent=1))
    else:
        # a run against another tree (seeded changes, old commits) must not overwrite the evidence of /repo
        (VERIF / "replays").mkdir(exist_ok=True)
        (VERIF / "replays" / f"evidence-{prop}-other-repo.json").write_text(json.dumps(jsonable(ev), indent=1))
    for ln in log[-40:]:
        print("  " + ln)
    for i in ctx.issues[:10]:
        print(f"  issue {i.kind} [{i.signature}] {i.what[:300]}")
    print(f"[{prop}] obligations {di}/{ob}  evaluations={ctx.cov.evaluations} distinct={len(ctx.cov.distinct)} "
          f"traces={ctx.cov.traces} wall={wall:.1f}s")
    for ln in lines:
        print(ln)
    return rc
