"""ARTMAP translator: the Python AST of `artlib/supervised/ARTMAP.py` (class ARTMAP), of the accessors and
`predict_ab` of `artlib/supervised/SimpleARTMAP.py`, of `BaseARTMAP.map_a2b` (`artlib/common/BaseARTMAP.py`) and of
the `n_clusters` property of `artlib/common/BaseART.py`  ->  Lean 4 definitions in `lean/ArtGen/ARTMAP.lean`.

ARTMAP's own code is glue: it trains a nested B-side estimator on the targets, reads its labels, and hands them to
the *inherited* SimpleARTMAP training (`super(ARTMAP, self).fit(...)`).  The inherited methods and the nested
estimators' `fit` / `partial_fit` are already translated by `ctrans.py` (lean/ArtGen/Control.lean); this module
translates the glue and emits *calls of those generated definitions* where the source calls `super()` or a nested
estimator, so that `lean/ArtGenProofs/ARTMAPSpec.lean` can compose the existing proofs `generated = model` into
`generated ARTMAP.fit = artmapFit`, … (ArtModel/ARTMAP.lean), the model the C09 theorems are stated about.

Objects: an ARTMAP instance is `Art.ImpARTMAP.Self` = (`module_b : Art.Imp.Self`, `smap : Art.Imp.SMapSelf`), a
SimpleARTMAP / BaseARTMAP instance is `Art.Imp.SMapSelf`, a nested estimator is `Art.Imp.Self`.  The abstract kernels
of the two nested estimators are `EA`, `EB : Art.Imp.Ext …` (as in ctrans), `module_b.get_cluster_centers()` is the
field of `OB : Art.ImpARTMAP.ModuleOps`.  Everything runs in the `Option` monad (`none` = the Python code raises).
A *stateful* method (it calls something that returns a new estimator) yields `(self', value)`, a *pure* one `value`.

The translation (one fixed rendering per construct; the rendering of a subscript is chosen by the operand type):
  x = E / a, b = E                     ->  let x := E  /  let (a, b) := E                (re-binding shadows)
  return E                             ->  pure E   (stateful method: pure (self, E));  `return self` -> pure (self, ())
  if c: return A  else: return B       ->  if c then (do A) else (do B)
  if isinstance(p, int): A             ->  match p with | .int p => (do A) | .arr p => (do rest)
    rest                                   (p a parameter annotated Union[np.ndarray, int]; A must end in return)
  if c: S                              ->  let self ← (
    rest                                     if c then do
                                               S'
                                               pure self
                                             else
                                               pure self)
                                           rest'
       a conditional that FALLS THROUGH, in a stateful method only: no else, no `return` anywhere inside S, and S binds
       no local name (a `let` inside the branch would not escape it, in Python it does) — S may only store to attributes
       of a nested estimator and call things that return a new estimator, i.e. re-bind `self`, which the branch yields
  self.<nested>.a = E                  ->  let self := { self with <nested> := { self.<nested> with <field> := E } }
       (stateful method; <nested> a direct field of the object: module_b; a one of BaseART's W, weight_sample_counter_,
       sample_counter_, labels_ (table STORE_FIELDS), E of the field's type; storing W also creates the attribute:
       `W := E, hasW := true`, the rendering ctrans uses for `self.module_a.W = …` in SimpleARTMAP)
  not c                                ->  (!c)
  hasattr(self, "labels_")  (in ARTMAP) -> self.smap.hasLabels     (the attribute SimpleARTMAP.fit / partial_fit create)
  []                                   ->  []            only as the stored value E of a list attribute (typed by it)
  np.zeros((n,), dtype=int)            ->  (List.replicate n 0)     (n = 0: the empty label vector)
  self.a                               ->  self.<field>      a an attribute of the class (table ATTRS), e.g.
                                           ARTMAP: module_b -> self.module_b, module_a -> self.smap.a, map -> self.smap.map
  o.a   (o a nested estimator)         ->  o.<field>         (BaseART attributes: W, labels_)
  self.p / o.p   (p a property)        ->  (← D.p o')        D = the class that defines p along the base-class chain,
                                                             o' = the object seen as a D (ARTMAP -> SimpleARTMAP: self.smap)
  self.m(args)   (m pure, translated)  ->  (← D.m o' args)
  x = self.m(args) / return self.m(args) (m stateful, translated)
                                       ->  let r_ ← D.m EA EB OB self args ; let self := r_.1 ; … r_.2 …
  self.<nested>.m(args)  as a statement, m translated by ctrans for BaseART (fit, partial_fit, …)
                                       ->  let r_ := Art.Gen.BaseART.m E<side> self.<nested> args'
                                           let self := { self with <nested> := r_.1 }
       args' follow BaseART.m's own signature as read from BaseART.py: keywords are resolved against it, the parameter
       `y` that ctrans ignores is skipped, a parameter that is not supplied takes the DEFAULT WRITTEN IN THE SOURCE
       (match_reset_func=None -> `true (fun _ _ _ _ _ => true)` = "is None" + an unused function, verbose=False -> false,
       max_iter=1 -> 1, "MT+" -> Art.MT.plus); a float default fails closed
  super(C, self).m(args) / super().m(args)   as a statement, in `x = …` or in `return …`
                                       ->  let r_ := Art.Gen.SimpleARTMAP.m EA self.smap args'   (m translated by ctrans)
                                           let r_ := SimpleARTMAP.m EA self.smap args'           (m = predict_ab, below)
                                           let self := { self with smap := r_.1 }
       only after checking that C is the class being translated, that its base-class chain is
       ARTMAP -> SimpleARTMAP -> BaseARTMAP, and that ARTMAP overrides nothing that the inherited methods reach
       through `self.` (otherwise the generated SimpleARTMAP code would not be what runs)
  self.module_b.get_cluster_centers()  ->  (← OB.get_cluster_centers self.module_b)
  d[k]          (d a dict)             ->  (← Art.mapGet d k)                       KeyError = none
  xs[i]         (xs a list, i : Nat)   ->  (← xs[i]?)                               IndexError = none
  xs[idx]       (idx an index array)   ->  (← Art.ImpARTMAP.npTake xs idx)
  xs[-n:]                              ->  (Art.ImpARTMAP.pyLastN xs n)             (all of xs when n = 0, as in Python)
  X.shape[0]                           ->  X.length
  A.reshape(v.shape)   (A, v 1-d)      ->  (← Art.ImpARTMAP.npReshapeLike A v)
  [E for t in it] / (E for t in it)    ->  (← (it).mapM (fun t => do pure E))
  {"A": E1, "B": E2}                   ->  (E1, E2)      the keys must be the declared record keys, in order
  (a, b)                               ->  (a, b)
  len(xs) / set(xs) / d.values()       ->  xs.length / xs.eraseDups / (Art.ImpARTMAP.dictValues d)
  hasattr(self, "W")   (in BaseART)    ->  self.hasW
  np.unique(v, return_inverse=True)    ->  (Art.ImpARTMAP.npUnique v)
  np.array(E) / np.array(E, dtype=int) ->  E                                         (a cast; see DROPPED)
  0, 1, …  /  True, False  /  "MT+"    ->  numerals / true, false / Art.MT.plus
`SimpleARTMAP.predict_ab` (a loop over the rows) is translated by ctrans' own rules (profile "SimpleARTMAP" with the
method added to its table); its text is emitted in the namespace `Art.Gen.ARTMAP.SimpleARTMAP`.
Anything else raises `Unsupported`: the translator fails closed.
"""
from __future__ import annotations

import ast
import os
import re
import sys
from pathlib import Path

from . import ctrans as C
from .ktrans import Unsupported, MODE_CTOR

VERIF = Path(__file__).resolve().parents[2]
FILES = {"ARTMAP": "artlib/supervised/ARTMAP.py", "SimpleARTMAP": "artlib/supervised/SimpleARTMAP.py",
         "BaseARTMAP": "artlib/common/BaseARTMAP.py", "BaseART": "artlib/common/BaseART.py"}
H = "Art.ImpARTMAP."
NAMESPACE = "Art.Gen.ARTMAP"

DROPPED = {
    "docstrings": "string-expression statements have no effect",
    "type annotations": "checked against the table METHODS (a changed annotation fails closed), otherwise no run-time effect",
    "self.validate_data(X, y), check_is_fitted(self)": "guards that only raise on invalid data / an unfitted estimator "
        "(rule GUARDS): the theorems are about calls on valid data; validation is C18's subject",
    "np.array(E), np.array(E, dtype=int)": "a cast of a list to ndarray: lists already are the arrays of the translation "
        "(dtype=int only on a list of integers)",
    "the parameter `y` of BaseART.fit": "ctrans ignores it (sklearn compatibility, BaseART never reads it); ARTMAP does not pass it",
    "__init__, get_params, validate_data, prepare_data, restore_data, set_params, plot_cluster_bounds, visualize":
        "not translated (constructor, sklearn parameter plumbing, data scaling = C18/C19, plotting) — out of the slice; "
        "__init__ is inspected: `module_b: BaseART` and `self.module_b = module_b` must be there",
}

COVERS = ("ARTMAP.fit / partial_fit / predict / predict_ab / predict_regression / labels_a / labels_b / labels_ab "
          "(artlib/supervised/ARTMAP.py), SimpleARTMAP.predict_ab / labels_a / labels_b / labels_ab / n_clusters / "
          "n_clusters_a / n_clusters_b (artlib/supervised/SimpleARTMAP.py), BaseARTMAP.map_a2b (artlib/common/BaseARTMAP.py) "
          "and the BaseART.n_clusters property are translated and proved equal to ArtModel/ARTMAP's artmapFit (any "
          "max_iter: fitEpochs / smapFitEpochs), artmapPartialFit (from a state whose B-side is emptied on the host's first batch: "
          "artmapPartialFitHost in ARTMAPSpec.lean — the reset `if not hasattr(self, 'labels_'): self.module_b.W = [] …` of "
          "ARTMAP.partial_fit is translated, and proved to make the first batch independent of module_b's past and equal to "
          "fit), smapPredict, smapPredictAB, mapA2B / mapGet; "
          "super(ARTMAP, self).fit/partial_fit/predict and module_b.fit/partial_fit are calls of the definitions ctrans "
          "generates from SimpleARTMAP.py / BaseART.py (ArtGen/Control.lean, tied to the model by ControlFit.lean for "
          "elementary modules with a scalar vigilance: scalarExt), module_b.get_cluster_centers() is the abstract field "
          "of Art.ImpARTMAP.ModuleOps, np.unique / fancy indexing / reshape / v[-n:] are the helpers of ArtModel/ImpARTMAP.lean.")

THEOREMS = [
    "ARTMAP.npUnique_take", "ARTMAP.pyLastN_drop",
    "ARTMAP.map_a2b_int_spec", "ARTMAP.map_a2b_arr_spec", "ARTMAP.map_a2b_model",
    "ARTMAP.accessors_spec", "ARTMAP.n_clusters_spec", "ARTMAP.n_clusters_b_spec",
    "ARTMAP.smap_predict_ab_spec", "ARTMAP.smap_predict_ab_model",
    "ARTMAP.predict_spec", "ARTMAP.predict_model", "ARTMAP.predict_ab_spec", "ARTMAP.predict_regression_spec",
    "ARTMAP.fit_spec", "ARTMAP.fit_model",
    "ARTMAP.partial_fit_split", "ARTMAP.partial_fit_model", "ARTMAP.partial_fit_first_batch_indep",
    "ARTMAP.partial_fit_first_batch_eq_fit", "ARTMAP.partial_fit_later_batch",
    "ARTMAP.gen_fit_map_inv", "ARTMAP.gen_fit_map_a2b_labels", "ARTMAP.gen_partial_fit_map_inv",
    "ARTMAP.gen_partial_fit_map_a2b_labels", "ARTMAP.gen_predict_eq_map_of_predict_a",
]

# ---------------------------------------------------------------- types
# atoms: "nat" "bool" "mt" "num" "unit" "dict" "XA" "XB" "WtA" "WtB" "Ctr" "smap" "artmap" "ioa";
# ("base", side) a nested estimator; ("list", t); ("prod", [t…]); ("rec", [(key, t)…]) a dict display with fixed string keys
LNAT = ("list", "nat")
ATOMS = {"nat": "Nat", "bool": "Bool", "mt": "Art.MT", "num": "α", "unit": "Unit", "dict": "List (Option Nat)",
         "XA": "XtA", "XB": "XtB", "WtA": "WtA", "WtB": "WtB", "Ctr": "Ctr", "smap": "Art.Imp.SMapSelf WtA PA",
         "artmap": f"{H}Self WtA PA WtB PB", "ioa": f"{H}IntOrArr"}


def atom(s: str) -> str:
    return f"({s})" if " " in s else s


def lty(t) -> str:
    if isinstance(t, str):
        return ATOMS[t]
    if t[0] == "base":
        return f"Art.Imp.Self Wt{t[1]} P{t[1]}"
    if t[0] == "list":
        return f"List {atom(lty(t[1]))}"
    if t[0] == "prod":
        return " × ".join(atom(lty(x)) for x in t[1])
    if t[0] == "rec":
        return " × ".join(atom(lty(x)) for _, x in t[1])
    raise Unsupported(f"type {t}")


def islist(t):
    return isinstance(t, tuple) and t[0] == "list"


# the classes, the Lean type of `self` in each, and their attributes: python attribute -> (projection path, type)
CHAIN = ["ARTMAP", "SimpleARTMAP", "BaseARTMAP"]          # the base-class chain the translation relies on (checked)
EXPECTED_BASES = {"ARTMAP": ["SimpleARTMAP"], "SimpleARTMAP": ["BaseARTMAP"]}
SELF_TYPE = {"BaseART": ("base", "A"), "BaseARTMAP": "smap", "SimpleARTMAP": "smap", "ARTMAP": "artmap"}
ATTRS = {
    "BaseART": {"W": ("W", ("list", "Wt?")), "labels_": ("labels", LNAT)},
    "BaseARTMAP": {"map": ("map", "dict")},
    "SimpleARTMAP": {"map": ("map", "dict"), "labels_": ("labelsB", LNAT), "module_a": ("a", ("base", "A"))},
    "ARTMAP": {"module_b": ("module_b", ("base", "B")), "module_a": ("smap.a", ("base", "A")),
               "map": ("smap.map", "dict"), "labels_": ("smap.labelsB", LNAT)},
}
HASATTR = {"BaseART": {"W": "hasW"}, "ARTMAP": {"labels_": "smap.hasLabels"}}
# attributes of a nested BaseART estimator that a host may store to: python attribute -> (field, type, what else the store sets)
STORE_FIELDS = {"W": ("W", ("list", "Wt?"), ", hasW := true"), "weight_sample_counter_": ("cnt", LNAT, ""),
                "sample_counter_": ("n", "nat", ""), "labels_": ("labels", LNAT, "")}
ANYLIST = ("list", "?")        # the type of the display `[]`: accepted only where a list type is expected (an attribute store)
# seeing an object of class C as an instance of its ancestor D
UPCAST = {("artmap", "smap"): ".smap", ("smap", "smap"): "", ("artmap", "artmap"): ""}
# guards (dropped, see DROPPED)
GUARD_METHODS = {"validate_data"}
GUARD_FUNCS = {"check_is_fitted"}
# the abstract methods of the nested B-side estimator: name -> (field of OB, result type)
OPS_B = {"get_cluster_centers": ("get_cluster_centers", ("list", "Ctr"))}
# what ARTMAP may define; anything else is unknown to the translator (it could change what the inherited code does)
ARTMAP_MAY_DEFINE = {"__init__", "get_params", "labels_a", "labels_b", "labels_ab", "validate_data", "prepare_data",
                     "restore_data", "fit", "partial_fit", "predict", "predict_ab", "predict_regression"}

ND = "np.ndarray"
LIT = "Literal['MT+', 'MT-', 'MT0', 'MT1', 'MT~']"
FITP = [("max_iter", "nat", None), ("match_tracking", "mt", LIT), ("epsilon", "num", "float")]
AB = ("rec", [("A", LNAT), ("B", LNAT)])
# what is translated, in order: (class, method, kind, [(parameter, type, annotation)], return type, return annotation)
# kind: "property" / "pure" (yield a value), "stateful" (yield (self', value); "self" = `return self`),
#       "ctrans" (translated by ctrans' rules under its SimpleARTMAP profile)
METHODS = [
    ("BaseART", "n_clusters", "property", [], "nat", "int"),
    ("BaseARTMAP", "map_a2b", "pure", [("y_a", "ioa", "Union[np.ndarray, int]")], "ioa", "Union[np.ndarray, int]"),
    ("SimpleARTMAP", "labels_a", "property", [], LNAT, ND),
    ("SimpleARTMAP", "labels_b", "property", [], LNAT, ND),
    ("SimpleARTMAP", "labels_ab", "property", [], AB, "Dict[str, np.ndarray]"),
    ("SimpleARTMAP", "n_clusters", "property", [], "nat", "int"),
    ("SimpleARTMAP", "n_clusters_a", "property", [], "nat", "int"),
    ("SimpleARTMAP", "n_clusters_b", "property", [], "nat", "int"),
    ("SimpleARTMAP", "predict_ab", "ctrans", [("X", ("list", "XA"), ND)], ("prod", [LNAT, LNAT]), "tuple[np.ndarray, np.ndarray]"),
    ("ARTMAP", "labels_a", "property", [], LNAT, ND),
    ("ARTMAP", "labels_b", "property", [], LNAT, ND),
    ("ARTMAP", "labels_ab", "property", [], AB, "Dict[str, np.ndarray]"),
    ("ARTMAP", "fit", "stateful", [("X", ("list", "XA"), ND), ("y", ("list", "XB"), ND)] + FITP + [("verbose", "bool", "bool")],
     "self", None),
    ("ARTMAP", "partial_fit", "stateful", [("X", ("list", "XA"), ND), ("y", ("list", "XB"), ND)] + FITP[1:], "self", None),
    ("ARTMAP", "predict", "stateful", [("X", ("list", "XA"), ND)], LNAT, ND),
    ("ARTMAP", "predict_ab", "stateful", [("X", ("list", "XA"), ND)], ("prod", [LNAT, LNAT]), "tuple[np.ndarray, np.ndarray]"),
    ("ARTMAP", "predict_regression", "stateful", [("X", ("list", "XA"), ND)], ("list", "Ctr"), ND),
]

IMPLICIT_ORDER = ["EA", "EB", "OB"]
IMPLICIT_DECL = {"EA": "(EA : Art.Imp.Ext XtA WtA PA CA α)", "EB": "(EB : Art.Imp.Ext XtB WtB PB CB α)",
                 "OB": f"(OB : {H}ModuleOps WtB PB Ctr)"}
TYPEVARS = ["XtA", "WtA", "PA", "CA", "XtB", "WtB", "PB", "CB", "α", "Ctr"]
# ctrans' parameter types -> the types of this module, for the estimator on `side`
def from_ctrans_type(t, side):
    if t == "Nat":
        return "nat"
    if t == "Bool":
        return "bool"
    if t == "Art.MT":
        return "mt"
    if t == "α":
        return "num"
    if t == "Xt":
        return "X" + side
    if t == "Unit":
        return "unit"
    if isinstance(t, tuple) and t[0] == "list":
        return ("list", from_ctrans_type(t[1], side))
    if isinstance(t, tuple) and t[0] == "prod":
        return ("prod", [from_ctrans_type(x, side) for x in t[1]])
    raise Unsupported(f"ctrans type {t}")


def src(e) -> str:
    return ast.unparse(e)


class Env:
    def __init__(self, trees):
        self.trees = trees
        self.classes = {}
        for cls, tree in trees.items():
            nodes = [n for n in tree.body if isinstance(n, ast.ClassDef) and n.name == cls]
            if len(nodes) != 1:
                raise Unsupported(f"class {cls} not found (once) in {FILES[cls]}")
            self.classes[cls] = nodes[0]
        for cls, want in EXPECTED_BASES.items():
            got = [src(b) for b in self.classes[cls].bases]
            if got != want:
                raise Unsupported(f"{cls} derives from {got}, the translator knows {want}")
        self.done = {}      # (class, method) -> dict(kind, lname, implicit, params, rty)

    def defines(self, cls, name) -> bool:
        return any(isinstance(f, ast.FunctionDef) and f.name == name for f in self.classes[cls].body)

    def function(self, cls, name) -> ast.FunctionDef:
        fs = [f for f in self.classes[cls].body if isinstance(f, ast.FunctionDef) and f.name == name]
        if len(fs) != 1:
            raise Unsupported(f"{cls}.{name} not found (once)")
        return fs[0]

    def resolve(self, cls, name, after=False):
        """the class along the chain that defines `name` for an instance of `cls` (after=True: as `super(cls, self)`)"""
        if cls == "BaseART":
            chain = ["BaseART"]
        elif cls in CHAIN:
            chain = CHAIN[CHAIN.index(cls):]
        else:
            raise Unsupported(f"class {cls}")
        if after:
            chain = chain[1:]
        for c in chain:
            if self.defines(c, name):
                return c
        raise Unsupported(f"{name} is not defined along {chain}")


class Ctx:
    def __init__(self, cls, env, kind):
        self.vars: dict[str, object] = {}
        self.used: set[str] = set()
        self.cls, self.env, self.kind = cls, env, kind

    def copy(self):
        c = Ctx(self.cls, self.env, self.kind)
        c.vars, c.used = dict(self.vars), self.used
        return c

    @property
    def stateful(self):
        return self.kind == "stateful"


def is_self(e):
    return isinstance(e, ast.Name) and e.id == "self"


def self_text(cx: Ctx, want: str) -> str:
    """`self` seen as an instance of the class whose Lean self type is `want`"""
    have = SELF_TYPE[cx.cls]
    if (have, want) not in UPCAST:
        raise Unsupported(f"{cx.cls} instance used as {want}")
    return "self" + UPCAST[(have, want)]


def paren(t: str) -> str:
    return t if re.fullmatch(r"[A-Za-z_][A-Za-z_0-9.]*|\d+|\(.*\)|\[.*\]", t) and balanced(t) else f"({t})"


def balanced(t: str) -> bool:
    if not (t.startswith("(") or t.startswith("[")):
        return True
    depth = 0
    for i, ch in enumerate(t):
        depth += ch in "(["
        depth -= ch in ")]"
        if depth == 0 and i < len(t) - 1:
            return False
    return True


def call_translated(cx: Ctx, owner: str, name: str, obj: str, e: ast.Call | None):
    """a call of a method translated by this module on the object `obj` (already seen as an `owner`)"""
    d = cx.env.done.get((owner, name))
    if d is None:
        raise Unsupported(f"{owner}.{name} is not translated (yet)")
    args = []
    if e is not None:
        args = call_args(e, [(p, t) for p, t, _ in d["params"]], cx, f"{owner}.{name}")
    cx.used.update(d["implicit"])
    return d, " ".join([d["lname"]] + d["implicit"] + [paren(obj)] + args)


def call_args(e: ast.Call, params, cx, what):
    """positional + keyword arguments against a parameter list (no defaults) -> Lean texts, type-checked"""
    names = [p for p, _ in params]
    if len(e.args) > len(params):
        raise Unsupported(f"{what}: too many arguments")
    given = dict(zip(names, e.args))
    for kw in e.keywords:
        if kw.arg is None or kw.arg in given or kw.arg not in names:
            raise Unsupported(f"{what}: keyword {kw.arg}")
        given[kw.arg] = kw.value
    out = []
    for p, t in params:
        if p not in given:
            raise Unsupported(f"{what}: argument {p} missing (defaults of translated methods are not substituted)")
        v, vt = ex(given[p], cx)
        if vt != t:
            raise Unsupported(f"{what}: argument {p} has type {vt}, expected {t}")
        out.append(paren(v))
    return out


def attribute(obj: str, oty, attr: str, cx: Ctx, objcls: str):
    """`obj.attr` for an object of class `objcls`"""
    table = ATTRS.get(objcls, {})
    if attr in table:
        proj, t = table[attr]
        if t == ("list", "Wt?"):
            t = ("list", "Wt" + oty[1])
        return f"{obj}.{proj}", t
    owner = cx.env.resolve(objcls, attr)
    d = cx.env.done.get((owner, attr))
    if d is None or d["kind"] != "property":
        raise Unsupported(f"attribute {attr} of a {objcls}: neither a known attribute nor a translated property")
    up = obj if objcls == "BaseART" else obj + UPCAST[(SELF_TYPE[objcls], SELF_TYPE[owner])]
    cx.used.update(d["implicit"])
    return "(← " + " ".join([d["lname"]] + d["implicit"] + [paren(up)]) + ")", d["rty"]


def ex(e: ast.AST, cx: Ctx):
    """expression -> (Lean text, type); the text may contain nested actions `(← …)`"""
    if isinstance(e, ast.Name):
        if e.id == "self" or e.id not in cx.vars:
            raise Unsupported(f"name {e.id} in an expression")
        return e.id, cx.vars[e.id]
    if isinstance(e, ast.Constant):
        v = e.value
        if isinstance(v, bool):
            return ("true" if v else "false"), "bool"
        if isinstance(v, int) and v >= 0:
            return str(v), "nat"
        if isinstance(v, str) and v in MODE_CTOR:
            return "Art.MT" + MODE_CTOR[v], "mt"
        raise Unsupported(f"constant {v!r}")
    if isinstance(e, ast.Attribute):
        if is_self(e.value):
            return attribute("self", SELF_TYPE[cx.cls], e.attr, cx, cx.cls)
        o, ot = ex(e.value, cx)
        if isinstance(ot, tuple) and ot[0] == "base":
            return attribute(o, ot, e.attr, cx, "BaseART")
        raise Unsupported(f"attribute {src(e)} of a value of type {ot}")
    if isinstance(e, ast.Tuple):
        parts = [ex(x, cx) for x in e.elts]
        return "(" + ", ".join(p[0] for p in parts) + ")", ("prod", [p[1] for p in parts])
    if isinstance(e, ast.Dict):
        if not e.keys or not all(isinstance(k, ast.Constant) and isinstance(k.value, str) for k in e.keys):
            raise Unsupported(f"dict display {src(e)}")
        parts = [ex(v, cx) for v in e.values]
        return "(" + ", ".join(p[0] for p in parts) + ")", ("rec", [(k.value, p[1]) for k, p in zip(e.keys, parts)])
    if isinstance(e, ast.Subscript):
        return subscript(e, cx)
    if isinstance(e, ast.UnaryOp) and isinstance(e.op, ast.Not):
        a, t = ex(e.operand, cx)
        if t != "bool":
            raise Unsupported(f"not of a value of type {t}")
        return f"(!{a})", "bool"
    if isinstance(e, ast.List) and not e.elts:
        return "[]", ANYLIST
    if isinstance(e, (ast.ListComp, ast.GeneratorExp)):
        if len(e.generators) != 1 or e.generators[0].ifs or e.generators[0].is_async or not isinstance(e.generators[0].target, ast.Name):
            raise Unsupported("comprehension with several generators, a filter or a pattern target")
        g = e.generators[0]
        it, ity = ex(g.iter, cx)
        if not islist(ity):
            raise Unsupported(f"comprehension over {ity}")
        inner = cx.copy()
        inner.vars[g.target.id] = ity[1]
        b, bt = ex(e.elt, inner)
        return f"(← ({it}).mapM (fun {g.target.id} => do pure {b}))", ("list", bt)
    if isinstance(e, ast.Call):
        return call(e, cx)
    raise Unsupported(f"expression {type(e).__name__}: {src(e)}")


def neg_of(e):
    return e.operand if isinstance(e, ast.UnaryOp) and isinstance(e.op, ast.USub) else None


def subscript(e: ast.Subscript, cx: Ctx):
    s = e.slice
    # X.shape[0]
    if isinstance(e.value, ast.Attribute) and e.value.attr == "shape" and isinstance(s, ast.Constant) and s.value == 0 \
            and type(s.value) is int:
        b, bt = ex(e.value.value, cx)
        if not islist(bt):
            raise Unsupported(f".shape[0] of {bt}")
        return f"{paren(b)}.length", "nat"
    b, bt = ex(e.value, cx)
    if isinstance(s, ast.Slice):
        n = neg_of(s.lower) if s.lower is not None else None
        if n is None or s.upper is not None or s.step is not None or not islist(bt):
            raise Unsupported(f"slice {src(e)}")
        k, kt = ex(n, cx)
        if kt != "nat":
            raise Unsupported(f"slice bound of type {kt}")
        return f"({H}pyLastN {paren(b)} {paren(k)})", bt
    i, it = ex(s, cx)
    if bt == "dict" and it == "nat":
        return f"(← Art.mapGet {paren(b)} {paren(i)})", "nat"
    if islist(bt) and it == "nat":
        return f"(← {paren(b)}[{i}]?)", bt[1]
    if islist(bt) and it == LNAT:
        return f"(← {H}npTake {paren(b)} {paren(i)})", bt
    raise Unsupported(f"subscript {src(e)}: {bt} indexed by {it}")


def call(e: ast.Call, cx: Ctx):
    f = e.func
    if isinstance(f, ast.Name):
        if f.id == "len" and len(e.args) == 1 and not e.keywords:
            a, t = ex(e.args[0], cx)
            if not islist(t):
                raise Unsupported(f"len of {t}")
            return f"{paren(a)}.length", "nat"
        if f.id == "set" and len(e.args) == 1 and not e.keywords:
            a, t = ex(e.args[0], cx)
            if t != LNAT:
                raise Unsupported(f"set of {t}")
            return f"{paren(a)}.eraseDups", LNAT
        if f.id == "hasattr" and len(e.args) == 2 and not e.keywords and is_self(e.args[0]) \
                and isinstance(e.args[1], ast.Constant) and e.args[1].value in HASATTR.get(cx.cls, {}):
            return f"self.{HASATTR[cx.cls][e.args[1].value]}", "bool"
        raise Unsupported(f"function call {src(e)[:80]}")
    if not isinstance(f, ast.Attribute):
        raise Unsupported(f"call {src(e)[:80]}")
    if isinstance(f.value, ast.Name) and f.value.id == "np":
        if f.attr == "array" and len(e.args) == 1 and [src(k) for k in e.keywords] in ([], ["dtype=int"]):
            a, t = ex(e.args[0], cx)
            if not islist(t) or (e.keywords and t != LNAT):
                raise Unsupported(f"np.array of {t}")
            return a, t
        if f.attr == "zeros" and len(e.args) == 1 and isinstance(e.args[0], ast.Tuple) and len(e.args[0].elts) == 1 \
                and [src(k) for k in e.keywords] == ["dtype=int"]:
            n, nt = ex(e.args[0].elts[0], cx)
            if nt != "nat":
                raise Unsupported(f"np.zeros of length type {nt}")
            return f"(List.replicate {paren(n)} 0)", LNAT
        if f.attr == "unique" and len(e.args) == 1 and [src(k) for k in e.keywords] == ["return_inverse=True"]:
            a, t = ex(e.args[0], cx)
            if t != LNAT:
                raise Unsupported(f"np.unique of {t}")
            return f"({H}npUnique {paren(a)})", ("prod", [LNAT, LNAT])
        raise Unsupported(f"numpy function {src(e)[:80]}")
    if f.attr == "values" and not e.args and not e.keywords:
        a, t = ex(f.value, cx)
        if t != "dict":
            raise Unsupported(f".values() of {t}")
        return f"({H}dictValues {paren(a)})", LNAT
    if f.attr == "reshape" and len(e.args) == 1 and not e.keywords and isinstance(e.args[0], ast.Attribute) \
            and e.args[0].attr == "shape":
        a, t = ex(f.value, cx)
        v, vt = ex(e.args[0].value, cx)
        if not (islist(t) and islist(vt) and not islist(t[1]) and not islist(vt[1])):
            raise Unsupported(f"reshape: {src(e)}")
        return f"(← {H}npReshapeLike {paren(a)} {paren(v)})", t
    # self.m(args), m a pure translated method
    if is_self(f.value):
        owner = cx.env.resolve(cx.cls, f.attr)
        d = cx.env.done.get((owner, f.attr))
        if d is None or d["kind"] != "pure":
            raise Unsupported(f"self.{f.attr}(…) in an expression: not a pure translated method")
        _, text = call_translated(cx, owner, f.attr, self_text(cx, SELF_TYPE[owner]), e)
        return f"(← {text})", d["rty"]
    # self.module_b.get_cluster_centers()
    if isinstance(f.value, ast.Attribute) and is_self(f.value.value) and f.attr in OPS_B:
        o, ot = ex(f.value, cx)
        if ot != ("base", "B") or e.args or e.keywords:
            raise Unsupported(f"{src(e)}: only the B-side estimator has abstract operations, without arguments")
        fld, rty = OPS_B[f.attr]
        cx.used.add("OB")
        return f"(← OB.{fld} {paren(o)})", rty
    raise Unsupported(f"method call {src(e)[:80]}")


# ---------------------------------------------------------------- calls that return a new estimator

def ctrans_args(e: ast.Call, callee: ast.FunctionDef, profile: str, side: str, cx: Ctx, what: str):
    """arguments for a definition generated by ctrans, following the callee's own signature and defaults"""
    prof = C.PROFILES[profile]
    a = callee.args
    if a.vararg or a.kwarg or a.kwonlyargs or a.posonlyargs or callee.decorator_list:
        raise Unsupported(f"{what}: signature")
    if any(isinstance(n, ast.While) for n in ast.walk(callee)):
        raise Unsupported(f"{what}: a method with a while loop needs fuel (not needed by ARTMAP)")
    names = [x.arg for x in a.args[1:]]
    defaults = dict(zip(names[len(names) - len(a.defaults):], a.defaults))
    if len(e.args) > len(names):
        raise Unsupported(f"{what}: too many arguments")
    given = dict(zip(names, e.args))
    for kw in e.keywords:
        if kw.arg is None or kw.arg in given or kw.arg not in names:
            raise Unsupported(f"{what}: keyword {kw.arg}")
        given[kw.arg] = kw.value
    out = []
    for n in names:
        if n in prof["IGNORED_PARAMS"]:
            if n in given:
                raise Unsupported(f"{what}: the ignored parameter {n} is supplied")
            continue
        if n in C.CALLBACKS:
            if n in given or not (isinstance(defaults.get(n), ast.Constant) and defaults[n].value is None):
                raise Unsupported(f"{what}: callback {n} must be left at its default None")
            out += ["true", "(fun _ _ _ _ _ => true)"]
            continue
        if n not in prof["PARAM_TYPES"]:
            raise Unsupported(f"{what}: parameter {n} unknown to ctrans")
        want = from_ctrans_type(prof["PARAM_TYPES"][n], side)
        if n in given:
            v, vt = ex(given[n], cx)
        elif n in defaults:
            dv = defaults[n]
            if not isinstance(dv, ast.Constant) or isinstance(dv.value, float) or dv.value is None:
                raise Unsupported(f"{what}: default {src(dv)} of {n} has no rendering")
            v, vt = ex(dv, cx)
        else:
            raise Unsupported(f"{what}: argument {n} missing")
        if vt != want:
            raise Unsupported(f"{what}: argument {n} has type {vt}, expected {want}")
        out.append(paren(v))
    return out


def reached_through_self(env: Env, start: list[tuple[str, str]]) -> set[str]:
    """names reached as `self.<name>` from the given (class, method)s, transitively along SimpleARTMAP -> BaseARTMAP"""
    seen, todo, names = set(), list(start), set()
    while todo:
        cls, m = todo.pop()
        if (cls, m) in seen:
            continue
        seen.add((cls, m))
        for n in ast.walk(env.function(cls, m)):
            if isinstance(n, ast.Attribute) and is_self(n.value):
                names.add(n.attr)
                for c in CHAIN[1:]:
                    if env.defines(c, n.attr):
                        todo.append((c, n.attr))
                        break
    return names


def super_call(e, cx: Ctx):
    """super(C, self).m(…) / super().m(…)  ->  (m, call) or None"""
    if isinstance(e, ast.Call) and isinstance(e.func, ast.Attribute) and isinstance(e.func.value, ast.Call) \
            and isinstance(e.func.value.func, ast.Name) and e.func.value.func.id == "super":
        sargs = [src(a) for a in e.func.value.args]
        if e.func.value.keywords or sargs not in ([], [cx.cls, "self"]):
            raise Unsupported(f"{src(e.func.value)} inside {cx.cls}")
        return e.func.attr, e
    return None


def stateful_call(e, cx: Ctx):
    """a call that returns a new estimator -> (lines that re-bind `self`, text of the value, its type); None otherwise"""
    env = cx.env
    sc = super_call(e, cx)
    if sc:
        m, call_ = sc
        if cx.cls != "ARTMAP":
            raise Unsupported(f"super() inside {cx.cls}")
        owner = env.resolve(cx.cls, m, after=True)
        over = reached_through_self(env, [(owner, m)]) & {f.name for f in env.classes["ARTMAP"].body if isinstance(f, ast.FunctionDef)}
        if over:
            raise Unsupported(f"ARTMAP overrides {sorted(over)}, which the inherited {owner}.{m} reaches through self")
        cx.used.add("EA")
        if owner == "SimpleARTMAP" and m in C.PROFILES["SimpleARTMAP"]["TRANSLATED"]:
            args = ctrans_args(call_, env.function(owner, m), "SimpleARTMAP", "A", cx, f"{owner}.{m}")
            text = " ".join([f"Art.Gen.SimpleARTMAP.{m}", "EA", "self.smap"] + args)
            rty = from_ctrans_type(C.PROFILES["SimpleARTMAP"]["METHOD_RET"][m], "A")
        elif (owner, m) in env.done and env.done[(owner, m)]["kind"] == "ctrans":
            d = env.done[(owner, m)]
            args = call_args(call_, [(p, t) for p, t, _ in d["params"]], cx, f"{owner}.{m}")
            text = " ".join([d["lname"], "EA", "self.smap"] + args)
            rty = d["rty"]
        else:
            raise Unsupported(f"super().{m} resolves to {owner}.{m}, which is not translated")
        return [f"let r_ := {text}", "let self := { self with smap := r_.1 }"], "r_.2", rty
    if isinstance(e, ast.Call) and isinstance(e.func, ast.Attribute):
        f = e.func
        # self.<nested>.m(…), m translated by ctrans for BaseART
        if isinstance(f.value, ast.Attribute) and is_self(f.value.value) and f.attr in C.PROFILES["BaseART"]["TRANSLATED"]:
            o, ot = ex(f.value, cx)
            if not (isinstance(ot, tuple) and ot[0] == "base"):
                return None
            proj = o[len("self."):]
            if "." in proj or not o.startswith("self."):
                raise Unsupported(f"state-writing call on {src(f.value)}")
            side = ot[1]
            cx.used.add("E" + side)
            args = ctrans_args(e, env.function("BaseART", f.attr), "BaseART", side, cx, f"BaseART.{f.attr}")
            text = " ".join([f"Art.Gen.BaseART.{f.attr}", "E" + side, o] + args)
            rty = from_ctrans_type(C.PROFILES["BaseART"]["METHOD_RET"][f.attr], side)
            return [f"let r_ := {text}", f"let self := {{ self with {proj} := r_.1 }}"], "r_.2", rty
        # self.m(…), m a stateful translated method
        if is_self(f.value):
            owner = env.resolve(cx.cls, f.attr)
            d = env.done.get((owner, f.attr))
            if d is not None and d["kind"] == "stateful":
                if owner != cx.cls:
                    raise Unsupported(f"stateful call of the inherited {owner}.{f.attr}")
                _, text = call_translated(cx, owner, f.attr, "self", e)
                return [f"let r_ ← {text}", "let self := r_.1"], "r_.2", d["rty"]
    return None


# ---------------------------------------------------------------- statements

def is_doc(s):
    return isinstance(s, ast.Expr) and isinstance(s.value, ast.Constant) and isinstance(s.value.value, str)


def is_guard(s):
    if not (isinstance(s, ast.Expr) and isinstance(s.value, ast.Call)):
        return False
    f = s.value.func
    if isinstance(f, ast.Name) and f.id in GUARD_FUNCS:
        return [src(a) for a in s.value.args] == ["self"] and not s.value.keywords
    return isinstance(f, ast.Attribute) and is_self(f.value) and f.attr in GUARD_METHODS


def ends_in_return(stmts):
    return bool(stmts) and isinstance(stmts[-1], ast.Return)


def wrap_return(v, vt, rty, cx: Ctx):
    """the value of `return E` against the declared return type"""
    if rty == "ioa":
        if vt == "nat":
            v, vt = f"({H}IntOrArr.int {paren(v)})", "ioa"
        elif vt == LNAT:
            v, vt = f"({H}IntOrArr.arr {paren(v)})", "ioa"
    if vt != rty:
        raise Unsupported(f"return value of type {vt}, declared {rty}")
    return f"pure (self, {v})" if cx.stateful else f"pure {v}"


def has_return(stmts) -> bool:
    return any(isinstance(n, ast.Return) for s in stmts for n in ast.walk(s))


def attribute_store(t: ast.Attribute, value, cx: Ctx) -> str:
    """self.<nested>.a = E  ->  the line that re-binds `self`"""
    if not cx.stateful:
        raise Unsupported("a pure method stores to an attribute")
    if not (isinstance(t.value, ast.Attribute) and is_self(t.value.value)):
        raise Unsupported(f"assignment target {src(t)}: only attributes of a nested estimator (self.<nested>.a) are stored to")
    o, ot = ex(t.value, cx)
    if not (isinstance(ot, tuple) and ot[0] == "base") or t.attr not in STORE_FIELDS:
        raise Unsupported(f"store to {src(t)}: not a known attribute of a nested estimator")
    proj = o[len("self."):]
    if "." in proj or not o.startswith("self."):
        raise Unsupported(f"state-writing store on {src(t.value)}")
    fld, fty, extra = STORE_FIELDS[t.attr]
    if fty == ("list", "Wt?"):
        fty = ("list", "Wt" + ot[1])
    v, vt = ex(value, cx)
    if not (vt == fty or (vt == ANYLIST and islist(fty))):
        raise Unsupported(f"store to {src(t)}: value of type {vt}, the attribute has {fty}")
    return f"let self := {{ self with {proj} := {{ {o} with {fld} := {v}{extra} }} }}"


def block(stmts, cx: Ctx, rty, I="  ", fallthrough=False) -> list[str]:
    """statements -> lines of a `do` block; fallthrough: the body of a conditional without else — it may not return or
    bind a local name, and yields the (re-bound) `self`"""
    out = []
    stmts = [s for s in stmts if not is_doc(s)]                       # DROPPED: docstrings
    for idx, s in enumerate(stmts):
        rest = stmts[idx + 1:]
        if is_guard(s):                                               # DROPPED: guards
            continue
        if isinstance(s, ast.Return):
            if fallthrough:
                raise Unsupported("return inside a conditional that falls through")
            if rest:
                raise Unsupported("code after return")
            if s.value is None:
                raise Unsupported("bare return")
            if is_self(s.value):
                if rty != "self" or not cx.stateful:
                    raise Unsupported("`return self` in a method that is not declared to return self")
                return out + [I + "pure (self, ())"]
            if rty == "self":
                raise Unsupported(f"return {src(s.value)} where `return self` is expected")
            sc = stateful_call(s.value, cx)
            if sc:
                if not cx.stateful:
                    raise Unsupported("a pure method calls something that returns a new estimator")
                lines, v, vt = sc
                return out + [I + ln for ln in lines] + [I + wrap_return(v, vt, rty, cx)]
            v, vt = ex(s.value, cx)
            return out + [I + wrap_return(v, vt, rty, cx)]
        if isinstance(s, ast.Expr):
            sc = stateful_call(s.value, cx)
            if sc is None:
                raise Unsupported(f"expression statement {src(s)[:80]}")
            if not cx.stateful:
                raise Unsupported("a pure method calls something that returns a new estimator")
            out += [I + ln for ln in sc[0]]
            continue
        if isinstance(s, ast.Assign) and len(s.targets) == 1:
            t = s.targets[0]
            if isinstance(t, ast.Attribute):
                out.append(I + attribute_store(t, s.value, cx))
                continue
            if fallthrough:
                raise Unsupported(f"{src(t)} is bound inside a conditional that falls through (the binding would not escape)")
            if isinstance(t, ast.Name) and t.id != "self":
                sc = stateful_call(s.value, cx)
                if sc:
                    if not cx.stateful:
                        raise Unsupported("a pure method calls something that returns a new estimator")
                    lines, v, vt = sc
                    out += [I + ln for ln in lines] + [I + f"let {t.id} := {v}"]
                else:
                    v, vt = ex(s.value, cx)
                    if vt == ANYLIST:
                        raise Unsupported(f"{t.id} = []: a list display has no element type of its own")
                    out.append(I + f"let {t.id} := {v}")
                cx.vars[t.id] = vt
                continue
            if isinstance(t, ast.Tuple) and all(isinstance(x, ast.Name) and x.id != "self" for x in t.elts):
                v, vt = ex(s.value, cx)
                if not (isinstance(vt, tuple) and vt[0] == "prod" and len(vt[1]) == len(t.elts)):
                    raise Unsupported(f"unpacking {src(s.value)} of type {vt} into {len(t.elts)} names")
                out.append(I + "let (" + ", ".join(x.id for x in t.elts) + f") := {v}")
                for x, xt in zip(t.elts, vt[1]):
                    cx.vars[x.id] = xt
                continue
            raise Unsupported(f"assignment target {src(t)}")
        if isinstance(s, ast.If):
            # if isinstance(p, int): A ; rest
            c = s.test
            if isinstance(c, ast.Call) and isinstance(c.func, ast.Name) and c.func.id == "isinstance" and len(c.args) == 2 \
                    and not c.keywords:
                p = c.args[0]
                if not (isinstance(p, ast.Name) and cx.vars.get(p.id) == "ioa" and src(c.args[1]) == "int"):
                    raise Unsupported(f"type test {src(c)}")
                if s.orelse or not ends_in_return(s.body) or not ends_in_return(rest):
                    raise Unsupported("isinstance test: both the branch and the rest must end in return, without else")
                c1, c2 = cx.copy(), cx.copy()
                c1.vars[p.id], c2.vars[p.id] = "nat", LNAT
                out.append(I + f"match {p.id} with")
                out.append(I + f"| .int {p.id} =>")
                out += block(s.body, c1, rty, I + "  ")
                out.append(I + f"| .arr {p.id} =>")
                out += block(rest, c2, rty, I + "  ")
                return out
            if ends_in_return(s.body) and ends_in_return(s.orelse) and not rest:
                ct, cty = ex(c, cx)
                if cty != "bool":
                    raise Unsupported(f"condition of type {cty}")
                out.append(I + f"if {ct} then")
                out += block(s.body, cx.copy(), rty, I + "  ")
                out.append(I + "else")
                out += block(s.orelse, cx.copy(), rty, I + "  ")
                return out
            if not s.orelse and not has_return(s.body) and cx.stateful and (rest or fallthrough):
                # if c: S ; rest      (S falls through)
                ct, cty = ex(c, cx)
                if cty != "bool":
                    raise Unsupported(f"condition of type {cty}")
                out.append(I + "let self ← (")
                out.append(I + f"  if {ct} then do")
                out += block(s.body, cx.copy(), rty, I + "    ", fallthrough=True)
                out.append(I + "  else")
                out.append(I + "    pure self)")
                continue
            raise Unsupported(f"if statement {src(s.test)}: only `if c: return A else: return B`, the isinstance test and "
                              "`if c: S` that falls through (no else, no return, no local binding in S)")
        raise Unsupported(f"statement {type(s).__name__}: {src(s)[:80]}")
    if fallthrough:
        return out + [I + "pure self"]
    raise Unsupported("method falls off its end")


def check_signature(f: ast.FunctionDef, kind, params, rann, what):
    a = f.args
    if a.vararg or a.kwarg or a.kwonlyargs or a.posonlyargs:
        raise Unsupported(f"{what}: *args / **kwargs / keyword-only parameters")
    got = [(x.arg, src(x.annotation) if x.annotation is not None else None) for x in a.args[1:]]
    want = [(p, ann) for p, _, ann in params]
    if got != want:
        raise Unsupported(f"{what} has parameters {got}, the translator knows {want}")
    if (src(f.returns) if f.returns is not None else None) != rann:
        raise Unsupported(f"{what} is annotated to return {src(f.returns) if f.returns else None}, the translator knows {rann}")
    decos = [src(d) for d in f.decorator_list]
    if decos != (["property"] if kind == "property" else []):
        raise Unsupported(f"{what}: decorators {decos}")


def binders(text: str, implicit) -> str:
    """the type variables that occur in `text` and the instances the used externals need"""
    tv = [v for v in TYPEVARS if re.search(rf"(?<![A-Za-z_0-9]){re.escape(v)}(?![A-Za-z_0-9])", text)]
    out = "{" + " ".join(tv) + " : Type}" if tv else ""
    if "EA" in implicit or "EB" in implicit:
        out += " [LT α] [DecidableRel (α := α) (· < ·)]"
    if "EA" in implicit:
        out += " [Inhabited WtA] [Inhabited CA]"
    if "EB" in implicit:
        out += " [Inhabited WtB] [Inhabited CB]"
    return out.strip()


def translate_method(env: Env, cls, name, kind, params, rty, rann) -> str:
    f = env.function(cls, name)
    check_signature(f, kind, params, rann, f"{cls}.{name}")
    cx = Ctx(cls, env, "stateful" if kind == "stateful" else "pure")
    for p, t, _ in params:
        cx.vars[p] = t
    body = block(list(f.body), cx, rty, "  ")
    implicit = [p for p in IMPLICIT_ORDER if p in cx.used]
    lname = name if cls == "ARTMAP" else f"{cls}.{name}"
    env.done[(cls, name)] = {"kind": kind, "lname": lname, "implicit": implicit, "params": params,
                             "rty": "unit" if rty == "self" else rty}
    sty = lty(SELF_TYPE[cls])
    vty = "Unit" if rty == "self" else lty(rty)
    res = f"Option ({sty} × {atom(vty) if '×' not in vty else vty})" if kind == "stateful" else f"Option {atom(vty)}"
    decl = " ".join(IMPLICIT_DECL[p] for p in implicit)
    pdecl = " ".join(f"({p} : {lty(t)})" for p, t, _ in params)
    sig = f"{decl} (self : {sty}) {pdecl} : {res}"
    b = binders(sig + "\n" + "\n".join(body), implicit)
    what = "the property " if kind == "property" else ""
    return (f"/-- generated from {what}`{cls}.{name}` ({FILES[cls]}) -/\n"
            f"def {lname} {b}\n    {' '.join(sig.split())} := do\n" + "\n".join(body) + "\n")


def translate_with_ctrans(env: Env, cls, name, params, rty, rann) -> str:
    """a method of SimpleARTMAP with a loop: ctrans' own rules, its profile extended by this method"""
    f = env.function(cls, name)
    check_signature(f, "ctrans", params, rann, f"{cls}.{name}")
    cret = {"nat": "Nat", LNAT: ("list", "Nat")}

    def back(t):
        if isinstance(t, tuple) and t[0] == "prod":
            return ("prod", [back(x) for x in t[1]])
        if t not in cret:
            raise Unsupported(f"return type {t} for ctrans")
        return cret[t]
    saved = C.PROFILES[cls]
    prof = dict(saved)
    prof["METHOD_RET"] = dict(saved["METHOD_RET"], **{name: back(rty)})
    try:
        C.PROFILES[cls] = prof
        C.use_profile(cls)
        text = C.translate_method(env.trees[cls], cls, name, env.trees)
    finally:
        C.PROFILES[cls] = saved
        C.use_profile("BaseART")
    env.done[(cls, name)] = {"kind": "ctrans", "lname": f"{cls}.{name}", "implicit": ["EA"], "params": params, "rty": rty}
    return text


def check_init(env: Env):
    """`ARTMAP.__init__(self, module_a: BaseART, module_b: BaseART)` stores module_b and hands module_a to SimpleARTMAP"""
    f = env.function("ARTMAP", "__init__")
    got = [(x.arg, src(x.annotation) if x.annotation is not None else None) for x in f.args.args[1:]]
    if got != [("module_a", "BaseART"), ("module_b", "BaseART")]:
        raise Unsupported(f"ARTMAP.__init__ has parameters {got}")
    body = [src(s) for s in f.body if not is_doc(s)]
    if body != ["self.module_b = module_b", "super(ARTMAP, self).__init__(module_a)"]:
        raise Unsupported(f"ARTMAP.__init__ does {body}")
    g = env.function("SimpleARTMAP", "__init__")
    got = [(x.arg, src(x.annotation) if x.annotation is not None else None) for x in g.args.args[1:]]
    body = [src(s) for s in g.body if not is_doc(s)]
    if got != [("module_a", "BaseART")] or body != ["self.module_a = module_a", "super().__init__()"]:
        raise Unsupported(f"SimpleARTMAP.__init__{got} does {body}")


PRELUDE = '''/-
GENERATED by harness/artv/atrans.py from {files} — do not edit.
Regenerated on every run of the checks that name it; ArtGenProofs/ARTMAPSpec.lean proves these definitions equal to the
SimpleARTMAP / ARTMAP model of ArtModel/ARTMAP.lean.  `Art.Gen.BaseART.*` / `Art.Gen.SimpleARTMAP.*` are the definitions
ctrans.py generates from BaseART.py / SimpleARTMAP.py (ArtGen/Control.lean).
-/
import ArtGen.Control
import ArtModel.ImpARTMAP

set_option linter.unusedVariables false

namespace Art.Gen.ARTMAP

'''


def generate(repo: Path) -> str:
    repo = Path(repo)
    trees = {c: ast.parse((repo / f).read_text()) for c, f in FILES.items()}
    env = Env(trees)
    check_init(env)
    extra = sorted({f.name for f in env.classes["ARTMAP"].body if isinstance(f, ast.FunctionDef)} - ARTMAP_MAY_DEFINE)
    if extra:
        raise Unsupported(f"ARTMAP defines {extra}: not known to the translator")
    parts = [PRELUDE.replace("{files}", ", ".join(FILES[c] for c in ("ARTMAP", "SimpleARTMAP", "BaseARTMAP", "BaseART")))]
    for cls, name, kind, params, rty, rann in METHODS:
        if kind == "ctrans":
            text = translate_with_ctrans(env, cls, name, params, rty, rann)
            parts.append(f"namespace {cls}\nsection\nopen Art.Gen.{cls}\n\n{text}\nend\nend {cls}\n")
        else:
            parts.append(translate_method(env, cls, name, kind, params, rty, rann))
    parts.append(f"end {NAMESPACE}\n")
    return "\n".join(parts)


def write(repo: Path = None) -> tuple[bool, str]:
    repo = Path(repo or os.environ.get("VERIF_REPO", "/repo"))
    out = VERIF / "lean" / "ArtGen" / "ARTMAP.lean"
    try:
        text = generate(repo)
    except (Unsupported, SyntaxError, KeyError, AttributeError, TypeError, IndexError, OSError) as e:
        return False, f"ARTMAP translator failed closed: {type(e).__name__}: {e}"
    if not out.exists() or out.read_text() != text:
        tmp = out.with_suffix(".lean.tmp")
        tmp.write_text(text)
        os.replace(tmp, out)
    return True, "generated"


if __name__ == "__main__":
    ok, msg = write(Path(sys.argv[1]) if len(sys.argv) > 1 else None)
    print(msg)
    sys.exit(0 if ok else 1)
