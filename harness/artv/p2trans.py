"""Validation-gate translator: the Python AST of the `validate_data` / `check_dimensions` methods that the other
translators drop as "a guard call" (or that nothing covered)  ->  Lean 4 definitions (`lean/ArtGen/Guards.lean`,
namespace `Art.Gen.Guards`).

Sources (parsed with `ast`, never imported) and what is emitted (concrete class . method; "inh." = the method is
inherited, its body is found along the MRO read from the `class` statements and re-translated for the concrete class,
so `self.check_dimensions` inside it is the concrete class's — Python's dynamic dispatch):
  artlib/common/BaseART.py                  BaseART.check_dimensions, BaseART.validate_data   (also done by ptrans; here in this
                                            file's monad, to serve as the held module of the composition theorems)
  artlib/elementary/BayesianART.py          BayesianART.check_dimensions, BayesianART.validate_data (inh.)
  artlib/elementary/HypersphereART.py       HypersphereART.check_dimensions (inh.), .validate_data (inh.)
  artlib/elementary/EllipsoidART.py         EllipsoidART.…   (inh., inh.)
  artlib/elementary/GaussianART.py          GaussianART.…    (inh., inh.)
  artlib/elementary/QuadraticNeuronART.py   QuadraticNeuronART.… (inh., inh.)
  artlib/fusion/FusionART.py                FusionART.check_dimensions, FusionART.validate_data
  artlib/topological/DualVigilanceART.py    DualVigilanceART.check_dimensions, .validate_data
  artlib/topological/TopoART.py             TopoART.check_dimensions (inh.), TopoART.validate_data
  artlib/supervised/SimpleARTMAP.py         SimpleARTMAP.validate_data          (base BaseARTMAP: artlib/common/BaseARTMAP.py)
  artlib/biclustering/BARTMAP.py            BARTMAP.validate_data
`lean/ArtGenProofs/GuardsSpec.lean` proves every generated definition equal to its specification (the C18 validation
model `runValidate` of `ArtModel/Prep.lean` for the elementary classes; "which held estimator validates which matrix,
in which order, and what is left behind when one of them raises" for the compound ones) and transports the C18
atomicity theorems to the generated definitions.

The monad (`lean/ArtModel/ImpGuards.lean`): a method is a `do` block in `Gd.Py (Self α μ) β`,
`Gd.Py σ β = σ → Except Gd.Err β × σ`: it returns the attribute record of `self` *as it is when the call ends, normally
or by raising*.  An estimator held by `self` is a `Gd.Obj α μ`: its state and its own class's two gate methods — those are
NOT translated here, they are fields of the record (parameters of the generated definitions).

The translation (one fixed rendering per construct; `⟦e⟧` = the rendering of `e`):
  statements
    "docstring"                            ->  dropped (DROPPED)
    assert c, "msg"                        ->  Gd.Py.assert ⟦c⟧                               (the message is dropped)
    x = e                                  ->  let x := ⟦e⟧
    a, b = e            (e a pair)         ->  let (a, b) := ⟦e⟧
    self.dim_ = e                          ->  let t__ := ⟦e⟧ ; Gd.Py.modify (fun s__ => { s__ with dim_ := some t__ })
    if c: A else: B     (no return inside) ->  if ⟦c⟧ then ⟦A⟧ else ⟦B⟧                      (do-blocks; no local may be assigned inside)
    for k in range(e): B                   ->  Gd.forRange ⟦e⟧ (fun k => do ⟦B⟧)               (no else; B may bind locals of its own)
    self.m(args)                           ->  C.m ⟦args⟧         C = the concrete class being translated (m along C's MRO)
    self.a.m(arg)       a ∈ module_a, module_b, base_module; m a gate method
                                           ->  Gd.callObj (·.a) (fun s__ o__ => { s__ with a := o__ }) (·.m) ⟦arg⟧
    self.modules[k].m(arg)   (k as below)  ->  Gd.callItem (·.modules) (fun s__ l__ => { s__ with modules := l__ }) k (·.m) ⟦arg⟧
    return e                               ->  pure ⟦e⟧           (last statement only)
    (the body ends without return)         ->  the last action's Unit
  expressions
    x                                      ->  x                  (parameter or local)
    0, 1, 1.0                              ->  0, 1 next to an int;  (0 : α), (1 : α) next to an array
    X.shape, e.shape[0], e.shape[1]        ->  (Np.shape X), (…).1, (…).2
    self.params["cov_init"]                ->  p_cov_init          (a parameter of the generated definition, a rank-2 array; BayesianART only)
    a == b   (ints)                        ->  (a == b)
    X >= c, X <= c   (array, number)       ->  (Np.ew2 (fun x__ => decide (x__ ≥ c)) X), … ≤ …   (only ==, <=, >= are translated)
    np.all(B)                              ->  (Np.all2 B)
    not c                                  ->  (!⟦c⟧)
    hasattr(self, "dim_")                  ->  (← Gd.Py.get).dim_.isSome
    self.dim_           (may be absent)    ->  (← Gd.Py.attr (·.dim_))                        (AttributeError when never assigned)
    self.n, self._channel_indices          ->  (← Gd.Py.get).n, (← Gd.Py.get)._channel_indices   (assigned in __init__: always present)
    l[k]     (l a list of pairs; k an int name or a non-negative literal)
                                           ->  (← Gd.Py.item ⟦l⟧ k)                           (IndexError past the end)
    p[0], p[1]   (p a pair)                ->  ⟦p⟧.1, ⟦p⟧.2
    X[:, a:b]                              ->  (Np.cols X ⟦a⟧ (some ⟦b⟧))
    (a, b)                                 ->  (⟦a⟧, ⟦b⟧)
    check_X_y(X, y, dtype=None)            ->  (← Gd.Py.lift (check_X_y X y))                 (sklearn's function with that keyword is a
                                               parameter of the generated definition: it may raise, it writes no attribute)
Which attributes a class may touch is a table (CLASS_ATTRS); an attribute outside it raises `Unsupported`.
Anything else raises `Unsupported`: the translator fails closed.
"""
from __future__ import annotations

import ast
import os
from pathlib import Path

from .ktrans import Unsupported
from .ptrans import check_signature, compare, is_doc, is_lit, lit, np_call, self_attr, src

VERIF = Path(__file__).resolve().parents[2]

# class -> (file, the bases its `class` statement must list)
CLASSES = {
    "BaseART": ("artlib/common/BaseART.py", ["BaseEstimator", "ClusterMixin"]),
    "BayesianART": ("artlib/elementary/BayesianART.py", ["BaseART"]),
    "HypersphereART": ("artlib/elementary/HypersphereART.py", ["BaseART"]),
    "EllipsoidART": ("artlib/elementary/EllipsoidART.py", ["BaseART"]),
    "GaussianART": ("artlib/elementary/GaussianART.py", ["BaseART"]),
    "QuadraticNeuronART": ("artlib/elementary/QuadraticNeuronART.py", ["BaseART"]),
    "FusionART": ("artlib/fusion/FusionART.py", ["BaseART"]),
    "DualVigilanceART": ("artlib/topological/DualVigilanceART.py", ["BaseART"]),
    "TopoART": ("artlib/topological/TopoART.py", ["BaseART"]),
    "BaseARTMAP": ("artlib/common/BaseARTMAP.py", ["BaseEstimator", "ClassifierMixin", "ClusterMixin"]),
    "SimpleARTMAP": ("artlib/supervised/SimpleARTMAP.py", ["BaseARTMAP"]),
    "BARTMAP": ("artlib/biclustering/BARTMAP.py", ["BaseEstimator", "BiclusterMixin"]),
}
FILES = {c: f for c, (f, _) in CLASSES.items()}
EXTERNAL_BASES = {"BaseEstimator", "ClusterMixin", "ClassifierMixin", "BiclusterMixin"}   # sklearn's: none defines a gate

DROPPED = {
    "docstrings": "a string expression statement has no effect",
    "assert messages": "`assert c, msg`: only `c` decides whether AssertionError is raised; the text is not part of the state",
    "type annotations": "used only to check that the parameters are the ones the signature table names",
    "the keyword dtype=None of check_X_y": "part of the name of the parameter: the binder `check_X_y` stands for "
                                            "`lambda X, y: sklearn.utils.validation.check_X_y(X, y, dtype=None)`; any other "
                                            "argument list is rejected",
}

X1 = [("X", "mat", "np.ndarray", None)]
# (class that DEFINES the body, method) -> (parameters after self, return type); default: (X) -> None
SIGS = {
    ("SimpleARTMAP", "validate_data"): ([("X", "mat", "np.ndarray", None), ("y", "yvec", "np.ndarray", None)],
                                        ("prod", ["mat", "yvec"])),
    ("BARTMAP", "validate_data"): ([("X_a", "mat", "np.ndarray", None), ("X_b", "mat", "np.ndarray", None)], "unit"),
}
GATES = ("check_dimensions", "validate_data")

# what is emitted, in dependency order
EMIT = [(c, m) for c in ("BaseART", "BayesianART", "HypersphereART", "EllipsoidART", "GaussianART", "QuadraticNeuronART",
                         "FusionART", "DualVigilanceART", "TopoART") for m in GATES] + \
       [("SimpleARTMAP", "validate_data"), ("BARTMAP", "validate_data")]

# attributes of self: name -> (type, kind).  "absent": does not exist until assigned (hasattr false, reading raises
# AttributeError); "present": assigned by __init__
ATTRS = {"dim_": ("nat", "absent"), "n": ("nat", "present"), "_channel_indices": ("pairs", "present"),
         "modules": ("objs", "present"), "module_a": ("obj", "present"), "module_b": ("obj", "present"),
         "base_module": ("obj", "present")}
# which of them a method of the class may touch (anything else fails closed).  DualVigilanceART.dim_ is a property that
# forwards to base_module.dim_, not an attribute: it is left out on purpose.
ELEM = {"dim_"}
CLASS_ATTRS = {
    "BaseART": ELEM, "BayesianART": ELEM, "HypersphereART": ELEM, "EllipsoidART": ELEM, "GaussianART": ELEM,
    "QuadraticNeuronART": ELEM,
    "FusionART": {"dim_", "n", "_channel_indices", "modules"},
    "DualVigilanceART": {"base_module"},
    "TopoART": {"dim_", "base_module"},
    "SimpleARTMAP": {"module_a"},
    "BARTMAP": {"module_a", "module_b"},
}
STORABLE = {"dim_"}
PARAM_KEYS = {"BayesianART": {"cov_init": "mat"}}      # self.params["k"] that may be read: binder p_k
BINDER_TYPES = {"p_cov_init": "List (List α)",
                "check_X_y": "List (List α) → Υ → Except Gd.Err (List (List α) × Υ)"}

LTY = {"nat": "Nat", "bool": "Bool", "mat": "List (List α)", "bmat": "List (List Bool)", "unit": "Unit", "yvec": "Υ"}


def lty(t) -> str:
    if isinstance(t, str) and t in LTY:
        return LTY[t]
    if isinstance(t, tuple) and t[0] == "prod":
        return " × ".join(lty(x) for x in t[1])
    raise Unsupported(f"type {t}")


PAIR = ("prod", ["nat", "nat"])


class Ctx:
    def __init__(self, cls, defining, mro, classes):
        self.cls, self.defining, self.mro, self.classes = cls, defining, mro, classes
        self.vars: dict[str, object] = {}
        self.binders: list[str] = []
        self.fresh = 0

    def tmp(self) -> str:
        self.fresh += 1
        return f"t{self.fresh}__"

    def bind(self, b: str):
        if b not in self.binders:
            self.binders.append(b)

    def attr_ok(self, a: str):
        if a not in ATTRS or a not in CLASS_ATTRS[self.cls]:
            raise Unsupported(f"{self.cls}: self.{a} is not an attribute its gates may touch")
        return ATTRS[a]


emitted: dict = {}     # (class, method) -> binders of the emitted definition


def nat_text(text, t) -> str:
    if is_lit(t):
        return lit(t[1], "nat")
    if t != "nat":
        raise Unsupported(f"{text} : {t} where an int is needed")
    return text


def ex(e: ast.AST, cx: Ctx):
    """expression -> (Lean text, type); the text may contain nested actions `(← …)`"""
    if isinstance(e, ast.Name):
        if e.id not in cx.vars:
            raise Unsupported(f"unknown name {e.id}")
        return e.id, cx.vars[e.id]
    if isinstance(e, ast.Constant):
        if isinstance(e.value, bool) or not isinstance(e.value, (int, float)):
            raise Unsupported(f"constant {e.value!r}")
        return repr(e.value), ("lit", e.value)
    a = self_attr(e)
    if a is not None:
        t, kind = cx.attr_ok(a)
        if t in ("obj", "objs"):
            raise Unsupported(f"self.{a} used as a value (held estimators are only called)")
        if kind == "absent":
            return f"(← Gd.Py.attr (·.{a}))", t
        return f"(← Gd.Py.get).{a}", t
    if isinstance(e, ast.Attribute) and e.attr == "shape":
        b, bt = ex(e.value, cx)
        if bt not in ("mat", "bmat"):
            raise Unsupported(f".shape of {bt}")
        return f"(Np.shape {b})", PAIR
    if isinstance(e, ast.Subscript):
        # self.params["cov_init"]
        if self_attr(e.value) == "params":
            keys = PARAM_KEYS.get(cx.cls, {})
            if not (isinstance(e.slice, ast.Constant) and e.slice.value in keys):
                raise Unsupported(f"{cx.cls}: {src(e)}")
            cx.bind("p_" + e.slice.value)
            return "p_" + e.slice.value, keys[e.slice.value]
        b, bt = ex(e.value, cx)
        if bt == PAIR and isinstance(e.slice, ast.Constant) and e.slice.value in (0, 1) \
                and not isinstance(e.slice.value, bool):
            return f"{b}.{e.slice.value + 1}", "nat"
        if bt == "pairs" and not isinstance(e.slice, (ast.Slice, ast.Tuple)):
            k = nat_text(*ex(e.slice, cx))
            return f"(← Gd.Py.item {b} {k})", PAIR
        # X[:, a:b]
        if bt == "mat" and isinstance(e.slice, ast.Tuple) and len(e.slice.elts) == 2:
            rows, colsl = e.slice.elts
            if not (isinstance(rows, ast.Slice) and rows.lower is None and rows.upper is None and rows.step is None):
                raise Unsupported(f"row selection in {src(e)}")
            if not isinstance(colsl, ast.Slice) or colsl.step is not None or colsl.lower is None or colsl.upper is None:
                raise Unsupported(f"column selection in {src(e)}")
            lo = nat_text(*ex(colsl.lower, cx))          # Python evaluates the lower bound first
            hi = nat_text(*ex(colsl.upper, cx))
            return f"(Np.cols {b} {lo} (some {hi}))", "mat"
        raise Unsupported(f"subscript {src(e)}")
    if isinstance(e, ast.UnaryOp) and isinstance(e.op, ast.Not):
        c, ct = ex(e.operand, cx)
        if ct != "bool":
            raise Unsupported("not of a non-Boolean")
        return f"(!{c})", "bool"
    if isinstance(e, ast.Compare):
        if len(e.ops) != 1:
            raise Unsupported(f"chained comparison {src(e)}")
        l, lt = ex(e.left, cx)
        r, rt = ex(e.comparators[0], cx)
        return compare(e.ops[0], l, lt, r, rt)
    if isinstance(e, ast.Tuple) and len(e.elts) == 2:
        parts = [ex(x, cx) for x in e.elts]
        if any(is_lit(t) for _, t in parts):
            raise Unsupported("literal inside a tuple")
        return "(" + ", ".join(p for p, _ in parts) + ")", ("prod", [t for _, t in parts])
    if isinstance(e, ast.Call):
        return call(e, cx)
    raise Unsupported(f"expression {type(e).__name__}: {src(e)}")


def call(e: ast.Call, cx: Ctx):
    f = e.func
    npf = np_call(e)
    if npf is not None:
        if npf == "all" and len(e.args) == 1 and not e.keywords:
            a, t = ex(e.args[0], cx)
            if t != "bmat":
                raise Unsupported(f"np.all of {t}")
            return f"(Np.all2 {a})", "bool"
        raise Unsupported(f"np.{npf}")
    if isinstance(f, ast.Name):
        if f.id == "hasattr" and len(e.args) == 2 and not e.keywords:
            if not (isinstance(e.args[0], ast.Name) and e.args[0].id == "self" and isinstance(e.args[1], ast.Constant)
                    and isinstance(e.args[1].value, str)):
                raise Unsupported(src(e))
            t, kind = cx.attr_ok(e.args[1].value)
            if kind != "absent":
                raise Unsupported(f"{src(e)}: the attribute always exists")
            return f"(← Gd.Py.get).{e.args[1].value}.isSome", "bool"
        if f.id == "check_X_y":
            if cx.cls != "SimpleARTMAP" or len(e.args) != 2 or [ast.unparse(k) for k in e.keywords] != ["dtype=None"]:
                raise Unsupported(f"{src(e)}: only check_X_y(X, y, dtype=None) in SimpleARTMAP")      # DROPPED: the keyword
            (a, at), (b, bt) = ex(e.args[0], cx), ex(e.args[1], cx)
            if (at, bt) != ("mat", "yvec"):
                raise Unsupported(f"check_X_y of {at}, {bt}")
            cx.bind("check_X_y")
            return f"(← Gd.Py.lift (check_X_y {a} {b}))", ("prod", ["mat", "yvec"])
        raise Unsupported(f"function {f.id}")
    raise Unsupported(f"call {src(e)} in an expression")


def sig_of(defining: str, m: str):
    return SIGS.get((defining, m), (X1, "unit"))


def gate_call(e: ast.Call, cx: Ctx) -> str:
    """a call statement -> one `do` line (a Unit action)"""
    f = e.func
    if e.keywords or not isinstance(f, ast.Attribute) or f.attr not in GATES:
        raise Unsupported(f"statement {src(e)}")
    m = f.attr
    recv = f.value
    # self.m(args): dynamic dispatch on the concrete class
    if isinstance(recv, ast.Name) and recv.id == "self":
        if (cx.cls, m) not in emitted:
            raise Unsupported(f"{cx.cls}.{m} is called before it is emitted")
        defining = next((c for c in cx.mro if m in cx.classes[c]), None)
        params, rty = sig_of(defining, m)
        if rty != "unit" or len(e.args) != len(params):
            raise Unsupported(f"statement {src(e)}")
        args = []
        for a, p in zip(e.args, params):
            t_, ty = ex(a, cx)
            if ty != p[1]:
                raise Unsupported(f"argument {t_} : {ty} where {p[1]} is expected")
            args.append(t_)
        bs = emitted[(cx.cls, m)]
        for b in bs:
            cx.bind(b)
        return " ".join([f"{cx.cls}.{m}"] + list(bs) + args)
    # a method of a held estimator: exactly one matrix argument
    if len(e.args) != 1:
        raise Unsupported(f"statement {src(e)}")
    arg, at = ex(e.args[0], cx)
    if at != "mat":
        raise Unsupported(f"{src(e)}: argument of type {at}")
    a = self_attr(recv)
    if a is not None:
        t, _ = cx.attr_ok(a)
        if t != "obj":
            raise Unsupported(f"{src(e)}: self.{a} is not a held estimator")
        return f"Gd.callObj (·.{a}) (fun s__ o__ => {{ s__ with {a} := o__ }}) (·.{m}) {arg}"
    if isinstance(recv, ast.Subscript) and self_attr(recv.value) is not None:
        a = self_attr(recv.value)
        t, _ = cx.attr_ok(a)
        if t != "objs" or isinstance(recv.slice, (ast.Slice, ast.Tuple)):
            raise Unsupported(f"{src(e)}: receiver")
        if not isinstance(recv.slice, (ast.Name, ast.Constant)):
            raise Unsupported(f"{src(e)}: index {src(recv.slice)}")
        k = nat_text(*ex(recv.slice, cx))
        return f"Gd.callItem (·.{a}) (fun s__ l__ => {{ s__ with {a} := l__ }}) {k} (·.{m}) {arg}"
    raise Unsupported(f"statement {src(e)}")


def block(stmts, cx: Ctx, ret_ty, I: str, top: bool) -> list[str]:
    out = []
    stmts = [s for s in stmts if not is_doc(s)]          # DROPPED: docstrings
    for idx, s in enumerate(stmts):
        if isinstance(s, ast.Return):
            if not top or idx != len(stmts) - 1 or s.value is None:
                raise Unsupported("return that is not the last statement of the function")
            v, vt = ex(s.value, cx)
            if vt != ret_ty:
                raise Unsupported(f"returns {vt}, the signature table says {ret_ty}")
            out.append(I + f"pure {v}")
            return out
        if isinstance(s, ast.Assert):
            c, ct = ex(s.test, cx)
            if ct != "bool":
                raise Unsupported(f"assert of {ct}")
            out.append(I + f"Gd.Py.assert {c}")           # DROPPED: the message
            continue
        if isinstance(s, ast.Assign) and len(s.targets) == 1:
            t = s.targets[0]
            v, vt = ex(s.value, cx)
            if is_lit(vt):
                raise Unsupported("assignment of a bare literal")
            if isinstance(t, ast.Name):
                out.append(I + f"let {t.id} := {v}")
                cx.vars[t.id] = vt
                continue
            a = self_attr(t)
            if a is not None:
                ty, _ = cx.attr_ok(a)
                if a not in STORABLE or vt != ty:
                    raise Unsupported(f"store to self.{a} of a value of type {vt}")
                tmp = cx.tmp()
                out.append(I + f"let {tmp} := {v}")
                out.append(I + f"Gd.Py.modify (fun s__ => {{ s__ with {a} := some {tmp} }})")
                continue
            if isinstance(t, ast.Tuple) and all(isinstance(x, ast.Name) for x in t.elts):
                if not (isinstance(vt, tuple) and vt[0] == "prod" and len(vt[1]) == len(t.elts)):
                    raise Unsupported(f"unpacking of {vt} into {len(t.elts)} targets")
                out.append(I + f"let ({', '.join(x.id for x in t.elts)}) := {v}")
                for x, xt in zip(t.elts, vt[1]):
                    cx.vars[x.id] = xt
                continue
            raise Unsupported(f"assignment target {src(t)}")
        if isinstance(s, ast.If):
            if any(isinstance(n, ast.Return) for b in s.body + s.orelse for n in ast.walk(b)):
                raise Unsupported("return inside if")
            if not s.orelse:
                raise Unsupported("if without else")
            c, ct = ex(s.test, cx)
            if ct != "bool":
                raise Unsupported("condition is not Boolean")
            before = dict(cx.vars)
            b1 = block(s.body, cx, None, I + "  ", False)
            v1 = dict(cx.vars)
            cx.vars = dict(before)
            b2 = block(s.orelse, cx, None, I + "  ", False)
            if v1 != before or cx.vars != before:
                raise Unsupported("a local variable is assigned inside an if branch")
            out.append(I + f"if {c} then")
            out += b1
            out.append(I + "else")
            out += b2
            continue
        if isinstance(s, ast.For):
            it = s.iter
            if s.orelse or not isinstance(s.target, ast.Name) or not (
                    isinstance(it, ast.Call) and isinstance(it.func, ast.Name) and it.func.id == "range"
                    and len(it.args) == 1 and not it.keywords):
                raise Unsupported(f"loop {src(s)[:60]}")
            if any(isinstance(n, (ast.Return, ast.Break, ast.Continue)) for b in s.body for n in ast.walk(b)):
                raise Unsupported("return / break / continue inside a loop")
            n = nat_text(*ex(it.args[0], cx))
            k = s.target.id
            if k in cx.vars:
                raise Unsupported(f"loop variable {k} shadows a name")
            before = dict(cx.vars)
            cx.vars[k] = "nat"
            body = block(s.body, cx, None, I + "  ", False)
            cx.vars = before                                  # locals of the body are not used after the loop
            out.append(I + f"Gd.forRange {n} (fun {k} => do")
            out += body
            out[-1] += ")"
            continue
        if isinstance(s, ast.Expr) and isinstance(s.value, ast.Call):
            out.append(I + gate_call(s.value, cx))
            continue
        raise Unsupported(f"statement {type(s).__name__}: {src(s)[:80]}")
    if ret_ty not in (None, "unit"):
        raise Unsupported("function falls off its end")
    if not out:
        raise Unsupported("empty block")
    return out


def names_used_after_loops(f: ast.FunctionDef):
    """fail closed if a name bound inside a `for` body is read after the loop (the rendering scopes it to the body)"""
    for i, s in enumerate(f.body):
        if isinstance(s, ast.For):
            bound = {n.id for b in s.body for n in ast.walk(b) if isinstance(n, ast.Name) and isinstance(n.ctx, ast.Store)}
            bound.add(s.target.id if isinstance(s.target, ast.Name) else "")
            later = {n.id for t in f.body[i + 1:] for n in ast.walk(t) if isinstance(n, ast.Name) and isinstance(n.ctx, ast.Load)}
            if bound & later:
                raise Unsupported(f"{sorted(bound & later)} bound inside a loop and read after it")


def translate_method(classes, mros, cls: str, name: str) -> str:
    mro = mros[cls]
    defining = next((c for c in mro if name in classes[c]), None)
    if defining is None:
        raise Unsupported(f"{cls}.{name} not found along {mro}")
    f = classes[defining][name]
    params, rty = sig_of(defining, name)
    check_signature(f, params, f"{defining}.{name}", True)
    names_used_after_loops(f)
    cx = Ctx(cls, defining, mro, classes)
    for p in params:
        cx.vars[p[0]] = p[1]
    body = block(f.body, cx, rty, "  ", True)
    emitted[(cls, name)] = list(cx.binders)
    bdecl = "".join(f"({b} : {BINDER_TYPES[b]}) " for b in cx.binders)
    decl = " ".join(f"({p[0]} : {lty(p[1])})" for p in params)
    origin = f"`{cls}.{name}`" if defining == cls else \
        f"`{cls}.{name}` (inherited: the body of `{defining}.{name}`, `self` is a {cls})"
    return (f"/-- {origin} -/\n"
            f"def {cls}.{name} {bdecl}{decl} :\n    Gd.Py (Self α μ) ({lty(rty)}) := do\n" + "\n".join(body) + "\n")


PRELUDE = '''/-
GENERATED by harness/artv/p2trans.py from {files} — do not edit.
Regenerated on every run of the checks that name it; ArtGenProofs/GuardsSpec.lean proves these definitions equal to
their specifications (the validation model of ArtModel/Prep.lean, C18).
-/
import ArtModel.ImpGuards

set_option linter.unusedVariables false

namespace Art.Gen.Guards
open Art

/-- the attributes of an estimator that the translated gates read or write.  `dim_` does not exist until assigned
(`none` = absent); `d_max_` / `d_min_` (the bounds remembered by `prepare_data`) are here only so that "no attribute
changed" includes them; `n`, `_channel_indices`, `modules` are FusionART's, `module_a` / `module_b` / `base_module` the
estimators held by SimpleARTMAP / BARTMAP / DualVigilanceART / TopoART (`μ` = the state of a held estimator). -/
structure Self (α μ : Type) where
  dim_ : Option Nat
  d_max_ : Option (List α)
  d_min_ : Option (List α)
  n : Nat
  _channel_indices : List (Nat × Nat)
  modules : List (Gd.Obj α μ)
  module_a : Gd.Obj α μ
  module_b : Gd.Obj α μ
  base_module : Gd.Obj α μ

section
variable {α μ Υ : Type} [Zero α] [One α] [NatCast α] [Div α] [LE α] [DecidableRel (α := α) (· ≤ ·)]

'''


def class_table(repo: Path):
    """class name -> {gate name -> FunctionDef}, and the MRO read from the `class` statements (single inheritance
    inside artlib; sklearn's mixins define neither gate)"""
    classes, mros = {}, {}
    for cls, (rel, want_bases) in CLASSES.items():
        tree = ast.parse((Path(repo) / rel).read_text())
        cd = [n for n in tree.body if isinstance(n, ast.ClassDef) and n.name == cls]
        if len(cd) != 1:
            raise Unsupported(f"class {cls} not found in {rel}")
        fns = {}
        for n in cd[0].body:
            if isinstance(n, ast.FunctionDef) and n.name in GATES:
                if n.name in fns:
                    raise Unsupported(f"{cls}.{n.name} defined twice")
                fns[n.name] = n
            elif isinstance(n, (ast.Assign, ast.AnnAssign)):
                tg = n.targets if isinstance(n, ast.Assign) else [n.target]
                if any(isinstance(t, ast.Name) and t.id in GATES for t in tg):
                    raise Unsupported(f"{cls}: a gate is assigned in the class body")
        classes[cls] = fns
        bases = [src(b) for b in cd[0].bases]
        if bases != want_bases:
            raise Unsupported(f"{cls} bases {bases}, the translator knows {want_bases}")
        mros[cls] = [cls] + [c for b in bases if b not in EXTERNAL_BASES for c in mros_of(b, mros)]
    return classes, mros


def mros_of(b, mros):
    if b not in mros:
        raise Unsupported(f"base class {b} is not in the class table (or comes after its subclass)")
    return mros[b]


def generate(repo: Path) -> str:
    repo = Path(repo)
    classes, mros = class_table(repo)
    emitted.clear()
    used = sorted({FILES[c] for cls, _ in EMIT for c in mros[cls]})
    parts = [PRELUDE.replace("{files}", ", ".join(used))]
    for cls, name in EMIT:
        parts.append(translate_method(classes, mros, cls, name))
    parts.append("end\n\nend Art.Gen.Guards\n")
    return "\n".join(parts)


def write(repo: Path = None) -> tuple[bool, str]:
    repo = Path(repo or os.environ.get("VERIF_REPO", "/repo"))
    out = VERIF / "lean" / "ArtGen" / "Guards.lean"
    try:
        text = generate(repo)
    except (Unsupported, SyntaxError, KeyError, AttributeError, TypeError, IndexError, ValueError, OSError) as e:
        return False, f"{type(e).__name__}: {e}"
    if not out.exists() or out.read_text() != text:
        tmp = out.with_suffix(".lean.tmp")
        tmp.write_text(text)
        os.replace(tmp, out)
    return True, "generated"


# proof obligations of lean/ArtGenProofs/GuardsSpec.lean, relative to namespace Art.GenSpec
THEOREMS: list[str] = ["Guards." + t for t in [
    # elementary classes: generated = runValidate of the model (ArtModel/Prep.lean)
    "check_dimensions_base_spec", "validate_base_spec", "check_dimensions_bayes_spec", "validate_bayes_spec",
    "check_dimensions_bayes_first", "check_dimensions_bayes_later", "inherited_gates_spec", "topo_check_dimensions_spec",
    # C18 atomicity transported (validate_pure_on_reject, reject_is_noop, ok_only_if_valid, malformed_is_rejected)
    "gen_check_bayes_atomic", "gen_validate_bayes_atomic", "gen_validate_inherited_atomic", "entry_eq_checked",
    "gen_entry_rejects", "gen_entry_ok_only_if_valid", "gen_entry_rejects_bayes", "gen_entry_ok_bayes",
    # FusionART
    "fusion_check_dimensions_spec", "fusion_validate_unfold", "fusion_validate_spec", "fusion_reject_width_noop",
    "fusion_validate_frame", "validateMods_first_reject", "validateMods_all_ok", "validateMods_noop",
    "fusion_validate_noop_warm", "gen_entry_rejects_fusion_warm",
    # SimpleARTMAP / DualVigilanceART / TopoART / BARTMAP
    "simple_validate_spec", "dual_check_spec", "dual_validate_spec", "topo_validate_spec", "bartmap_validate_spec",
    "topo_validate_atomic", "dual_validate_eq_topo", "dual_validate_atomic", "simple_validate_atomic",
    "bartmap_reject_a_noop", "bartmap_reject_b",
    # composition with an elementary held estimator
    "baseObj_clean", "baseObj_check_redundant", "bayesObj_clean", "gen_entry_rejects_wrapped_base",
    "gen_entry_rejects_simple_base",
]]
COVERS = ("validate_data / check_dimensions of BayesianART (check_dimensions own, validate_data = BaseART's body under dynamic "
          "dispatch), of HypersphereART / EllipsoidART / GaussianART / QuadraticNeuronART (both inherited: BaseART's bodies "
          "re-translated along the MRO read from the class statements), FusionART, DualVigilanceART, TopoART (check_dimensions "
          "inherited), SimpleARTMAP.validate_data and BARTMAP.validate_data are translated statement by statement into a state "
          "monad that returns the attribute record as it is when the call ends or raises (ArtModel/ImpGuards.lean) and proved "
          "equal, for all matrices / records / held estimators, to: runValidate of validBase / widthOk / the new predicates "
          "bayesDimOk, validBayes (ArtModel/Prep.lean's C18 validation model) for the elementary classes, with the first-call / "
          "later-call clauses of BayesianART stated separately (later calls depend on the remembered dim_ only, not on "
          "cov_init); for FusionART: the total-width assertion, then module k validates columns _channel_indices[k][0] … [1]-1 "
          "for k = 0 … n-1 until one raises (validateMods), FusionART's own attributes never written; for the other compounds: "
          "which held gate is called with which matrix in which order.  C18's validate_pure_on_reject, reject_is_noop, "
          "ok_only_if_valid and malformed_is_rejected are transported to the generated gates (the generated entry point "
          "`gate; body` is the model's `checked`), and through the compound gates when the held estimator is an elementary one. "
          "Parameters, not translated: the held estimators' own gate methods (fields of Gd.Obj; contracts CleanV / "
          "CheckRedundant are hypotheses, proved for the generated BaseART / BayesianART gates), sklearn's "
          "check_X_y(·, ·, dtype=None), params['cov_init'] as a rank-2 array; numpy's shape / comparison / np.all / column "
          "slicing are modelled by the helpers of ArtModel/ImpPrep.lean.")

if __name__ == "__main__":
    import sys
    ok, msg = write(sys.argv[1] if len(sys.argv) > 1 else None)
    print(msg)
    sys.exit(0 if ok else 1)
