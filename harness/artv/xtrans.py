"""Delegation translator: the thin wrappers by which the compound estimators forward `prepare_data`, `restore_data`,
`validate_data`, `check_dimensions`, `get_cluster_centers`, `step_pred`, `match_criterion`, `labels_` to the
estimators they hold  ->  Lean 4 definitions in `lean/ArtGen/Deleg.lean` (namespace `Art.Gen.Deleg`).

Every function in TARGETS is translated statement by statement into the `Option` monad over the records of
`lean/ArtModel/ImpDeleg.lean` (`Host`: the attributes a wrapper reads; `Mod`: the methods of a held estimator).
Attribute and method names are kept as *field names*, so a wrapper that forwards to another module or another method
generates a different term.  `lean/ArtGenProofs/DelegSpec.lean` proves each generated wrapper equal to its
one-line specification and derives the hosts' `restore_data ∘ prepare_data = id` from the modules' (C18).

Rules (anything else raises `Unsupported`: the translator fails closed):
  def f(self, a, b=None)            ->  def C.f (self : Host A) (a : A) (b : Option A := none) := show Option _ from do …
                                        (a parameter named in LIST_ARGS has type `List A`)
  docstring                         ->  dropped (DROPPED)
  return e                          ->  pure e
  <call of a raising method>        ->  let _ ← e        (methods in RAISING: validate_data, check_dimensions)
  (function body ends without return) -> pure ()
  assert n is not None              ->  let n ← n        (`None` is the failing branch: AssertionError)
  a, b = e                          ->  let (a, b) ← e   (e must be a super() call; `_` allowed)
  name                              ->  name             (parameter or local)
  self.attr                         ->  self.attr        (attr must be a field of Host)
  e.attr                            ->  (e).attr         (e an estimator expression; attr ∈ MOD_ATTRS, not called)
  e.m(args)                         ->  ((e).m args)     (m ∈ MOD_METHODS; if m ∈ RAISING the call is bound with ←)
  e[i]                              ->  (← (e)[i]?)      (i an int literal or a name; IndexError is `none`)
  super(C, self).f(args)            ->  (← B.f self args)   B = the single base class of C, which must be a class
                                        with a translated f; omitted trailing parameters take their defaults
  (e1, …, en)                       ->  (e1, …, en)
  [e for i in range(n)]             ->  (← (List.range n).mapM (fun i => do pure e))
  [e] * n                           ->  (List.replicate n e)
"""
from __future__ import annotations

import ast
import os
from pathlib import Path

from .ktrans import Unsupported

VERIF = Path(__file__).resolve().parents[2]

# (file, class, function) in generation order (a super() target must come before its caller)
TARGETS = [
    ("artlib/supervised/SimpleARTMAP.py", "SimpleARTMAP", "prepare_data"),
    ("artlib/supervised/SimpleARTMAP.py", "SimpleARTMAP", "restore_data"),
    ("artlib/supervised/ARTMAP.py", "ARTMAP", "validate_data"),
    ("artlib/supervised/ARTMAP.py", "ARTMAP", "prepare_data"),
    ("artlib/supervised/ARTMAP.py", "ARTMAP", "restore_data"),
    ("artlib/hierarchical/DeepARTMAP.py", "DeepARTMAP", "labels_"),
    ("artlib/hierarchical/DeepARTMAP.py", "DeepARTMAP", "prepare_data"),
    ("artlib/hierarchical/DeepARTMAP.py", "DeepARTMAP", "restore_data"),
    ("artlib/hierarchical/SMART.py", "SMART", "prepare_data"),
    ("artlib/hierarchical/SMART.py", "SMART", "restore_data"),
    ("artlib/reinforcement/FALCON.py", "FALCON", "prepare_data"),
    ("artlib/reinforcement/FALCON.py", "FALCON", "restore_data"),
    ("artlib/topological/DualVigilanceART.py", "DualVigilanceART", "prepare_data"),
    ("artlib/topological/DualVigilanceART.py", "DualVigilanceART", "restore_data"),
    ("artlib/topological/DualVigilanceART.py", "DualVigilanceART", "get_cluster_centers"),
    ("artlib/topological/TopoART.py", "TopoART", "prepare_data"),
    ("artlib/topological/TopoART.py", "TopoART", "restore_data"),
    ("artlib/topological/TopoART.py", "TopoART", "match_criterion"),
    ("artlib/topological/TopoART.py", "TopoART", "get_cluster_centers"),
    ("artlib/cvi/CVIART.py", "CVIART", "validate_data"),
    ("artlib/cvi/CVIART.py", "CVIART", "check_dimensions"),
    ("artlib/cvi/CVIART.py", "CVIART", "prepare_data"),
    ("artlib/cvi/CVIART.py", "CVIART", "restore_data"),
    ("artlib/cvi/CVIART.py", "CVIART", "step_pred"),
    ("artlib/cvi/CVIART.py", "CVIART", "get_cluster_centers"),
]

HOST_FIELDS = {"module_a", "module_b", "base_module", "modules", "layers", "n_modules", "fusion_art"}
SUB_FIELDS = {"modules"}                       # fields of self.fusion_art
MOD_METHODS = {"prepare_data": 1, "restore_data": 1, "validate_data": 1, "check_dimensions": 1,
               "get_cluster_centers": 0, "step_pred": 1, "match_criterion": 4}
MOD_ATTRS = {"labels_"}
RAISING = {"validate_data", "check_dimensions"}
LIST_ARGS = {("DeepARTMAP", "prepare_data", "X"), ("DeepARTMAP", "restore_data", "X")}

DROPPED = {
    "docstrings": "no effect",
    "type annotations": "no run-time effect",
    "decorator @property (DeepARTMAP.labels_)": "a property getter is a function of self",
}


def _find(tree: ast.Module, cls: str, fn: str):
    for node in tree.body:
        if isinstance(node, ast.ClassDef) and node.name == cls:
            found = [n for n in node.body if isinstance(n, ast.FunctionDef) and n.name == fn]
            # a property with a setter defines the name twice: the getter is the one decorated `property`
            getters = [n for n in found if not any(isinstance(d, ast.Attribute) and d.attr == "setter"
                                                   for d in n.decorator_list)]
            if len(getters) != 1:
                raise Unsupported(f"{cls}.{fn}: expected exactly one definition, found {len(getters)}")
            f = getters[0]
            for d in f.decorator_list:
                if not (isinstance(d, ast.Name) and d.id == "property"):
                    raise Unsupported(f"{cls}.{fn}: decorator {ast.unparse(d)}")
            bases = [b.id if isinstance(b, ast.Name) else ast.unparse(b) for b in node.bases]
            return f, bases
    raise Unsupported(f"class {cls} / function {fn} not found")


class _Fn:
    def __init__(self, cls, fn, node, bases, known):
        self.cls, self.fn, self.node, self.bases, self.known = cls, fn, node, bases, known
        self.names = set()

    def fail(self, what, node=None):
        where = f" (line {node.lineno})" if node is not None and hasattr(node, "lineno") else ""
        raise Unsupported(f"{self.cls}.{self.fn}{where}: {what}")

    # ---- expressions -------------------------------------------------------------------------------------------
    def est(self, e) -> str:
        """an expression that denotes an estimator (or a list of them / the fusion record)"""
        if isinstance(e, ast.Attribute) and isinstance(e.value, ast.Name) and e.value.id == "self":
            if e.attr not in HOST_FIELDS:
                self.fail(f"self.{e.attr} is not an attribute the wrappers may read", e)
            return f"self.{e.attr}"
        if isinstance(e, ast.Attribute) and e.attr in SUB_FIELDS:
            inner = self.est(e.value)
            if inner != "self.fusion_art":
                self.fail(f"{ast.unparse(e)}", e)
            return f"{inner}.{e.attr}"
        if isinstance(e, ast.Subscript):
            return f"(← ({self.est(e.value)})[{self.index(e.slice)}]?)"
        self.fail(f"estimator expression {ast.unparse(e)}", e)

    def index(self, i) -> str:
        if isinstance(i, ast.Constant) and isinstance(i.value, int) and not isinstance(i.value, bool) and i.value >= 0:
            return str(i.value)
        if isinstance(i, ast.Name) and i.id in self.names:
            return i.id
        self.fail(f"index {ast.unparse(i)}", i)

    def expr(self, e) -> str:
        if isinstance(e, ast.Name):
            if e.id not in self.names:
                self.fail(f"unknown name {e.id}", e)
            return e.id
        if isinstance(e, ast.Tuple):
            return "(" + ", ".join(self.expr(x) for x in e.elts) + ")"
        if isinstance(e, ast.Subscript):
            if isinstance(e.value, ast.Name):
                return f"(← ({self.expr(e.value)})[{self.index(e.slice)}]?)"
            self.fail(f"subscript {ast.unparse(e)}", e)
        if isinstance(e, ast.Attribute):
            if e.attr in MOD_ATTRS:
                return f"(({self.est(e.value)}).{e.attr})"
            self.fail(f"attribute {ast.unparse(e)}", e)
        if isinstance(e, ast.BinOp) and isinstance(e.op, ast.Mult) and isinstance(e.left, ast.List) \
                and len(e.left.elts) == 1:
            return f"(List.replicate {self.nat(e.right)} {self.expr(e.left.elts[0])})"
        if isinstance(e, ast.ListComp):
            if len(e.generators) != 1:
                self.fail("nested comprehension", e)
            g = e.generators[0]
            if g.ifs or g.is_async or not isinstance(g.target, ast.Name):
                self.fail("comprehension form", e)
            it = g.iter
            if not (isinstance(it, ast.Call) and isinstance(it.func, ast.Name) and it.func.id == "range"
                    and len(it.args) == 1 and not it.keywords):
                self.fail(f"comprehension over {ast.unparse(it)}", e)
            n = self.nat(it.args[0])
            self.names.add(g.target.id)
            body = self.expr(e.elt)
            self.names.discard(g.target.id)
            return f"(← (List.range {n}).mapM (fun {g.target.id} => do pure {body}))"
        if isinstance(e, ast.Call):
            return self.call(e)
        self.fail(f"expression {ast.unparse(e)}", e)

    def nat(self, e) -> str:
        if isinstance(e, ast.Attribute) and isinstance(e.value, ast.Name) and e.value.id == "self" \
                and e.attr == "n_modules":
            return "self.n_modules"
        self.fail(f"count {ast.unparse(e)}", e)

    def call(self, e: ast.Call) -> str:
        if e.keywords:
            self.fail("keyword arguments", e)
        f = e.func
        if not isinstance(f, ast.Attribute):
            self.fail(f"call of {ast.unparse(f)}", e)
        args = [self.expr(a) for a in e.args]
        # super(C, self).f(args)
        if isinstance(f.value, ast.Call) and isinstance(f.value.func, ast.Name) and f.value.func.id == "super":
            s = f.value
            if not (len(s.args) == 2 and isinstance(s.args[0], ast.Name) and s.args[0].id == self.cls
                    and isinstance(s.args[1], ast.Name) and s.args[1].id == "self" and not s.keywords):
                self.fail(f"{ast.unparse(s)}", e)
            if len(self.bases) != 1:
                self.fail(f"super() with bases {self.bases}", e)
            key = (self.bases[0], f.attr)
            if key not in self.known:
                self.fail(f"super() target {key[0]}.{key[1]} is not translated", e)
            lo, hi = self.known[key]
            if not lo <= len(args) <= hi:
                self.fail(f"{len(args)} arguments for {key[0]}.{key[1]}", e)
            return "(← " + " ".join([f"{key[0]}.{key[1]} self"] + args) + ")"
        if f.attr not in MOD_METHODS:
            self.fail(f"method {f.attr}", e)
        if len(args) != MOD_METHODS[f.attr]:
            self.fail(f"{len(args)} arguments for {f.attr}", e)
        txt = "(" + " ".join([f"({self.est(f.value)}).{f.attr}"] + args) + ")"
        return f"(← {txt})" if f.attr in RAISING else txt

    # ---- statements --------------------------------------------------------------------------------------------
    def render(self) -> str:
        n = self.node
        a = n.args
        if a.vararg or a.kwarg or a.kwonlyargs or a.posonlyargs:
            self.fail("signature")
        params = a.args
        if not params or params[0].arg != "self":
            self.fail("first parameter is not self")
        ndef = len(a.defaults)
        sig = ["(self : Host A)"]
        for k, p in enumerate(params[1:]):
            d = a.defaults[k - (len(params) - 1 - ndef)] if k >= len(params) - 1 - ndef else None
            ty = "List A" if (self.cls, self.fn, p.arg) in LIST_ARGS else "A"
            if d is None:
                sig.append(f"({p.arg} : {ty})")
            elif isinstance(d, ast.Constant) and d.value is None:
                sig.append(f"({p.arg} : Option {ty} := none)")
            else:
                self.fail(f"default {ast.unparse(d)}")
            self.names.add(p.arg)
        self.arity = (len(params) - 1 - ndef, len(params) - 1)
        body = list(n.body)
        if body and isinstance(body[0], ast.Expr) and isinstance(body[0].value, ast.Constant) \
                and isinstance(body[0].value.value, str):
            body = body[1:]
        if not body:
            self.fail("empty body")
        lines, returned = [], False
        for st in body:
            if returned:
                self.fail("statement after return", st)
            if isinstance(st, ast.Return):
                if st.value is None:
                    self.fail("bare return", st)
                lines.append(f"pure {self.expr(st.value)}")
                returned = True
            elif isinstance(st, ast.Expr) and isinstance(st.value, ast.Call):
                f = st.value.func
                if not (isinstance(f, ast.Attribute) and f.attr in RAISING):
                    self.fail(f"expression statement {ast.unparse(st)}", st)
                txt = self.call(st.value)                  # "(← (...))"
                lines.append("let _ ← " + txt[len("(← "):-1])
            elif isinstance(st, ast.Assert):
                t = st.test
                if not (isinstance(t, ast.Compare) and isinstance(t.left, ast.Name) and len(t.ops) == 1
                        and isinstance(t.ops[0], ast.IsNot) and isinstance(t.comparators[0], ast.Constant)
                        and t.comparators[0].value is None and st.msg is None and t.left.id in self.names):
                    self.fail(f"assert {ast.unparse(t)}", st)
                lines.append(f"let {t.left.id} ← {t.left.id}")
            elif isinstance(st, ast.Assign):
                if len(st.targets) != 1 or not isinstance(st.targets[0], ast.Tuple) \
                        or not all(isinstance(x, ast.Name) for x in st.targets[0].elts):
                    self.fail(f"assignment {ast.unparse(st)}", st)
                v = st.value
                if not (isinstance(v, ast.Call) and isinstance(v.func, ast.Attribute)
                        and isinstance(v.func.value, ast.Call)):
                    self.fail(f"assignment from {ast.unparse(v)}", st)
                rhs = self.call(v)
                if not rhs.startswith("(← "):
                    self.fail("tuple assignment from a non-super call", st)
                names = [x.id for x in st.targets[0].elts]
                lines.append(f"let ({', '.join(names)}) ← {rhs[len('(← '):-1]}")
                for x in names:
                    if x != "_":
                        self.names.add(x)
            else:
                self.fail(f"statement {ast.unparse(st)}", st)
        if not returned:
            lines.append("pure ()")
        head = f"/-- `{self.cls}.{self.fn}` -/\ndef {self.cls}.{self.fn} " + " ".join(sig) + " :=\n  show Option _ from do"
        return head + "\n" + "\n".join("  " + ln for ln in lines) + "\n"


HEADER = """/-
GENERATED by harness/artv/xtrans.py from the Python sources of the compound estimators' delegating wrappers — do not edit.
Regenerated on every run; `ArtGenProofs/DelegSpec.lean` proves each definition equal to its specification.
-/
import ArtModel.ImpDeleg

set_option linter.unusedVariables false

namespace Art.Gen.Deleg
open Art.Deleg

variable {A : Type}

"""


def generate(repo: Path) -> str:
    repo = Path(repo)
    trees, known, out = {}, {}, []
    for rel, cls, fn in TARGETS:
        if rel not in trees:
            trees[rel] = ast.parse((repo / rel).read_text())
        node, bases = _find(trees[rel], cls, fn)
        f = _Fn(cls, fn, node, bases, known)
        out.append(f.render())
        known[(cls, fn)] = f.arity
    return HEADER + "\n".join(out) + "\nend Art.Gen.Deleg\n"


def write(repo: Path = None) -> tuple[bool, str]:
    repo = Path(repo or os.environ.get("VERIF_REPO", "/repo"))
    out = VERIF / "lean" / "ArtGen" / "Deleg.lean"
    try:
        text = generate(repo)
    except (Unsupported, SyntaxError, KeyError, AttributeError, TypeError, IndexError, ValueError, OSError) as e:
        return False, f"{type(e).__name__}: {e}"
    if not out.exists() or out.read_text() != text:
        tmp = out.with_suffix(".lean.tmp")
        tmp.write_text(text)
        os.replace(tmp, out)
    return True, "generated"


THEOREMS: list[str] = ["Deleg." + t for t in [
    "SimpleARTMAP_prepare", "SimpleARTMAP_restore", "ARTMAP_validate", "ARTMAP_prepare", "ARTMAP_restore",
    "DeepARTMAP_labels", "DeepARTMAP_prepare", "DeepARTMAP_restore", "SMART_prepare", "SMART_restore",
    "FALCON_prepare", "FALCON_restore", "Dual_prepare", "Dual_restore", "Dual_centers",
    "Topo_prepare", "Topo_restore", "Topo_match", "Topo_centers",
    "CVIART_validate", "CVIART_check", "CVIART_prepare", "CVIART_restore", "CVIART_step_pred", "CVIART_centers",
    "SimpleARTMAP_roundtrip", "ARTMAP_roundtrip", "DeepARTMAP_roundtrip", "SMART_roundtrip", "FALCON_roundtrip",
    "Dual_roundtrip", "Topo_roundtrip", "CVIART_roundtrip",
]]
COVERS = ("the delegating wrappers SimpleARTMAP / ARTMAP / DeepARTMAP / SMART / FALCON / DualVigilanceART / TopoART / "
          "CVIART .prepare_data and .restore_data, ARTMAP / CVIART .validate_data, CVIART.check_dimensions / step_pred, "
          "DualVigilanceART / TopoART / CVIART .get_cluster_centers, TopoART.match_criterion and DeepARTMAP.labels_ are "
          "translated statement by statement (ArtModel/ImpDeleg.lean: a host is the record of the attributes the wrappers "
          "read, a held estimator the record of the methods they call; IndexError, AssertionError and a raising validation "
          "are `none`) and proved equal to their one-line specifications (which module, which method, which argument, in "
          "which order) for all hosts and arguments; the hosts' restore_data ∘ prepare_data = id is derived from the "
          "modules' round trip (ArtProps/C18.lean proves that of the elementary classes).  Parameters, not translated: the "
          "held estimators' own methods (fields of Mod).")
