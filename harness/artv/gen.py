"""Seeded, structured generators.  Every random choice comes from the
`random.Random` handed in, so (seed, generator, index) replays exactly."""
from __future__ import annotations

import random
from typing import Optional

import numpy as np


def rng_for(seed: int, name: str, index: int = 0) -> random.Random:
    return random.Random(f"{seed}/{name}/{index}")


def grid_rows(r: random.Random, n: int, d: int, m: int = 4, style: Optional[str] = None) -> np.ndarray:
    """n rows in [0,1]^d on the grid k/2^m, with structure (duplicates, corners,
    clusters) chosen by `style`."""
    g = 2 ** m
    style = style or r.choice(["uniform", "dups", "blobs", "corners", "coarse", "blobs", "dups"])
    rows = []
    if style == "uniform":
        rows = [[r.randint(0, g) / g for _ in range(d)] for _ in range(n)]
    elif style == "coarse":
        rows = [[r.choice([0, g // 4, g // 2, 3 * g // 4, g]) / g for _ in range(d)] for _ in range(n)]
    elif style == "dups":
        k = max(1, n // 3)
        pool = [[r.randint(0, g) / g for _ in range(d)] for _ in range(k)]
        rows = [list(r.choice(pool)) for _ in range(n)]
    elif style == "blobs":
        k = r.randint(1, 4)
        cs = [[r.randint(1, g - 1) / g for _ in range(d)] for _ in range(k)]
        for _ in range(n):
            c = r.choice(cs)
            rows.append([min(1.0, max(0.0, c[j] + r.randint(-2, 2) / g)) for j in range(d)])
    elif style == "corners":
        for _ in range(n):
            t = r.random()
            if t < 0.2:
                rows.append([0.0] * d)
            elif t < 0.4:
                rows.append([1.0] * d)
            elif t < 0.6:
                rows.append([float(r.randint(0, 1)) for _ in range(d)])
            else:
                rows.append([r.randint(0, g) / g for _ in range(d)])
    return np.array(rows, dtype=float).reshape(n, d)


def float_rows(r: random.Random, n: int, d: int) -> np.ndarray:
    return np.array([[r.random() for _ in range(d)] for _ in range(n)], dtype=float).reshape(n, d)


def binary_rows(r: random.Random, n: int, d: int, allow_zero: bool = False) -> np.ndarray:
    style = r.choice(["uniform", "nested", "dups", "sparse"])
    rows = []
    for _ in range(n):
        while True:
            if style == "uniform":
                row = [r.randint(0, 1) for _ in range(d)]
            elif style == "sparse":
                row = [1 if r.random() < 0.3 else 0 for _ in range(d)]
            elif style == "nested":
                k = r.randint(1, d)
                row = [1] * k + [0] * (d - k)
            else:
                base = rows[r.randrange(len(rows))] if rows and r.random() < 0.6 else [r.randint(0, 1) for _ in range(d)]
                row = list(base)
            if allow_zero or any(row):
                break
        rows.append(row)
    return np.array(rows, dtype=float).reshape(n, d)


def cc(X: np.ndarray) -> np.ndarray:
    return np.hstack([X, 1.0 - X])


def compositions(r: random.Random, n: int, k: Optional[int] = None) -> list[int]:
    """a random composition of n into batch sizes ≥ 1"""
    if n == 0:
        return []
    style = r.choice(["ones", "single", "tail1", "random", "random"]) if k is None else "random"
    if style == "ones":
        return [1] * n
    if style == "single":
        return [n]
    if style == "tail1" and n > 1:
        return [n - 1, 1]
    cuts = sorted(r.sample(range(1, n), r.randint(0, min(n - 1, 5)))) if n > 1 else []
    parts, prev = [], 0
    for c in cuts + [n]:
        parts.append(c - prev)
        prev = c
    return parts


def all_compositions(n: int):
    if n == 0:
        yield []
        return
    for first in range(1, n + 1):
        for rest in all_compositions(n - first):
            yield [first] + rest


def split(X, parts):
    out, i = [], 0
    for p in parts:
        out.append(X[i:i + p])
        i += p
    return out


DYADIC_RHO = [0.0, 0.25, 0.5, 0.625, 0.75, 0.875, 1.0]


def fuzzy_params(r: random.Random, boundary_bias: float = 0.3) -> dict:
    rho = r.choice(DYADIC_RHO)
    alpha = r.choice([0.0, 2.0 ** -10, 0.25]) if r.random() < boundary_bias or rho > 0 else r.choice([2.0 ** -10, 0.25])
    if rho == 0.0 and alpha == 0.0:
        alpha = 2.0 ** -10  # the property's standing assumption for rho = 0
    beta = r.choice([1.0, 1.0, 0.5])
    return dict(rho=rho, alpha=alpha, beta=beta)


def labels(r: random.Random, n: int, k: int = 3, X: Optional[np.ndarray] = None) -> np.ndarray:
    """class labels; with X given, sometimes contradictory labels on identical rows"""
    y = [r.randrange(k) for _ in range(n)]
    return np.array(y, dtype=int)


def veto_table(r: random.Random, n: int, maxcat: int) -> list[list[bool]]:
    style = r.choice(["none", "all", "alt", "best", "random", "random", "sparse"])
    tab = []
    for i in range(n):
        if style == "none":
            row = [False] * maxcat
        elif style == "all":
            row = [True] * maxcat
        elif style == "alt":
            row = [(c + i) % 2 == 0 for c in range(maxcat)]
        elif style == "sparse":
            row = [r.random() < 0.15 for _ in range(maxcat)]
        else:
            row = [r.random() < 0.5 for _ in range(maxcat)]
        tab.append(row)
    return tab
